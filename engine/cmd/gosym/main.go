// gosym: symbolic execution of go/ssa built from /repo's current tree, deciding
// harness assertions with an SMT solver. See /verif/DESIGN.md.
package main

import (
	"encoding/json"
	"flag"
	"fmt"
	"os"
	"os/exec"
	"path/filepath"
	"runtime/pprof"
	"sort"
	"strconv"
	"strings"
	"time"

	"gosym/sym"
)

type HarnessCfg struct {
	Pkg            string                    `json:"pkg"`
	Func           string                    `json:"func"`
	Params         map[string]map[string]int `json:"params"` // tier -> name -> value
	Threads        bool                      `json:"threads"`
	MustReach      []string                  `json:"must_reach"`
	Twin           bool                      `json:"twin"`      // must yield a violation (vacuity / sensitivity witness)
	Tiers          []string                  `json:"tiers"`     // default both
	MaxPaths       map[string]int            `json:"max_paths"` // tier -> limit
	What           string                    `json:"what"`
	NoReplay       bool                      `json:"no_replay"`
	MaxSeconds     map[string]int            `json:"max_seconds"`
	Stubs          map[string]string         `json:"stubs"`
	YieldMode      string                    `json:"yield_mode"`
	ClockMode      string                    `json:"clock_mode"`
	MaxPreempt     int                       `json:"max_preempt"`      // overrides the check-level bound for this harness
	MaxAlloc       int                       `json:"max_alloc"`        // largest make() length the engine models (default 1<<18)
	MaxPreemptTier map[string]int            `json:"max_preempt_tier"` // tier -> bound (overrides max_preempt)
	ReplayOptional bool                      `json:"replay_optional"`  // model-level counterexamples (crash durability) count even if a native run cannot exhibit them
}

type CheckCfg struct {
	Property       string            `json:"property"`
	Packages       []string          `json:"packages"`
	Harnesses      []HarnessCfg      `json:"harnesses"`
	Stubs          map[string]string `json:"stubs"`
	SymMapOrder    bool              `json:"sym_map_order"`
	PoolSymbolic   bool              `json:"pool_symbolic"`
	YieldFields    []string          `json:"yield_fields"`
	MaxPreempt     int               `json:"max_preempt"`
	MaxPreemptTier map[string]int    `json:"max_preempt_tier"`
	MaxSteps       int               `json:"max_steps"`
	MaxDecisions   int               `json:"max_decisions"`
	TimeoutMs      map[string]int    `json:"timeout_ms"`
	Bounds         map[string]string `json:"bounds"` // tier -> human-readable bound statement
	OutsideClaim   []string          `json:"outside_claim"`
	Assumptions    []string          `json:"assumptions"`
	Functions      []string          `json:"functions"`
	SkipInit       []string          `json:"skip_init"`
	AllocEnumMax   int               `json:"alloc_enum_max"`
	YieldMode      string            `json:"yield_mode"`
	ClockMode      string            `json:"clock_mode"`
}

type KnownFinding struct {
	Property string `json:"property"`
	Status   string `json:"status"` // known | fixed
	Harness  string `json:"harness"`
	Kind     string `json:"kind"`
	Label    string `json:"label"`
	PosFile  string `json:"pos_file"` // file (without line) where the failure is raised; empty = any
	What     string `json:"what"`
	Commit   string `json:"commit,omitempty"`
}

type KnownFile struct {
	Findings []KnownFinding `json:"findings"`
}

func fatalf(code int, f string, a ...interface{}) {
	fmt.Fprintf(os.Stderr, "gosym: "+f+"\n", a...)
	os.Exit(code)
}

func main() {
	var (
		verifDir = flag.String("verif", "/verif", "verif directory")
		repoDir  = flag.String("repo", "/repo", "repository directory")
		checkID  = flag.String("check", "", "property id (checks/<id>.json)")
		tier     = flag.String("tier", "quick", "quick|thorough")
		only     = flag.String("only", "", "run only the harness with this function name")
		workers  = flag.Int("workers", 16, "parallel workers")
		solver   = flag.String("solver", "z3", "z3|z3-new|cvc5")
		trace    = flag.Bool("trace", false, "trace instructions")
		noReplay = flag.Bool("no-replay", false, "skip native replay (development)")
		replayP  = flag.String("replay", "", "replay a stored counterexample directory natively and exit")
		noEvid   = flag.Bool("no-evidence", false, "do not write the evidence file")
		verbose  = flag.Bool("v", false, "verbose")
		cpuprof  = flag.String("cpuprofile", "", "write cpu profile")
	)
	flag.Parse()
	if *cpuprof != "" {
		f, _ := os.Create(*cpuprof)
		pprof.StartCPUProfile(f)
		defer pprof.StopCPUProfile()
	}
	if *replayP != "" {
		ok, out := runReplayDir(*repoDir, *replayP)
		fmt.Print(out)
		if ok {
			fmt.Println("REPRODUCED")
			os.Exit(1)
		}
		fmt.Println("NOT REPRODUCED")
		os.Exit(0)
	}
	if *checkID == "" {
		fatalf(2, "need -check")
	}
	t0 := time.Now()
	seed := 0
	if s := os.Getenv("VERIF_SEED"); s != "" {
		seed, _ = strconv.Atoi(s)
	}
	if t := os.Getenv("VERIF_TIER"); t != "" && !flagSet("tier") {
		*tier = t
	}
	var cfg CheckCfg
	b, err := os.ReadFile(filepath.Join(*verifDir, "checks", *checkID+".json"))
	if err != nil {
		fatalf(2, "%v", err)
	}
	if err := json.Unmarshal(b, &cfg); err != nil {
		fatalf(2, "bad check config: %v", err)
	}
	var known KnownFile
	if kb, err := os.ReadFile(filepath.Join(*verifDir, "known_findings.json")); err == nil {
		if err := json.Unmarshal(kb, &known); err != nil {
			fatalf(2, "bad known_findings.json: %v", err)
		}
	}

	lc := sym.LoadConfig{RepoDir: *repoDir, HarnessDir: filepath.Join(*verifDir, "harness"), Packages: cfg.Packages, Tags: []string{"verif"}}
	tl := time.Now()
	P, err := sym.Load(lc)
	if err != nil {
		fatalf(2, "load: %v", err)
	}
	loadS := time.Since(tl).Seconds()
	P.Trace = *trace
	P.SymMapOrder = cfg.SymMapOrder
	P.PoolSymbolic = cfg.PoolSymbolic
	if cfg.MaxPreempt > 0 {
		P.MaxPreempt = cfg.MaxPreempt
	}
	P.ExplicitYield = cfg.YieldMode == "explicit"
	basePreempt := P.MaxPreempt
	if cfg.AllocEnumMax > 0 {
		P.AllocEnumMax = cfg.AllocEnumMax
	}
	if cfg.MaxSteps > 0 {
		P.MaxSteps = cfg.MaxSteps
	}
	if cfg.MaxDecisions > 0 {
		P.MaxDecisions = cfg.MaxDecisions
	}
	for _, f := range cfg.YieldFields {
		P.YieldFields[f] = true
	}
	for _, s := range cfg.SkipInit {
		P.SkipInit[s] = true
	}
	for target, repl := range cfg.Stubs {
		if err := P.AddStub(target, repl); err != nil {
			fatalf(2, "stub %s: %v", target, err)
		}
	}
	timeout := 20000
	if v, ok := cfg.TimeoutMs[*tier]; ok {
		timeout = v
	} else if *tier == "thorough" {
		timeout = 120000
	}

	type hres struct {
		cfg HarnessCfg
		res *sym.ExploreResult
	}
	var results []hres
	totalViol := 0
	var newViol []string
	var knownLines []string
	inconclusive := []string{}
	replays := 0
	replayOK := 0
	var samples []interface{}
	states, transitions := 0, int64(0)
	queries := [3]int{}
	solverMs := 0.0
	funcs := map[string]bool{}
	stubs := map[string]bool{}
	obligations, trivial := 0, 0
	ascii := false
	usedKnown := map[int]bool{}
	var harnessSummaries []map[string]interface{}

	for _, hc := range cfg.Harnesses {
		if *only != "" && !inList(*only, hc.Func) {
			continue
		}
		if len(hc.Tiers) > 0 && !contains(hc.Tiers, *tier) {
			continue
		}
		fn, err := P.FindFunc(hc.Pkg, hc.Func)
		if err != nil {
			fatalf(2, "%v", err)
		}
		hs := &sym.HarnessSpec{Name: hc.Pkg + "." + hc.Func, Pkg: hc.Pkg, Func: hc.Func, Fn: fn, Params: hc.Params[*tier], Threads: hc.Threads}
		maxPaths := 200000
		if v, ok := hc.MaxPaths[*tier]; ok {
			maxPaths = v
		}
		P.ClearStubs()
		for target, repl := range cfg.Stubs {
			if err := P.AddStub(target, repl); err != nil {
				fatalf(2, "stub %s: %v", target, err)
			}
		}
		for target, repl := range hc.Stubs {
			if err := P.AddStub(target, repl); err != nil {
				fatalf(2, "stub %s: %v", target, err)
			}
		}
		P.ExplicitYield = cfg.YieldMode == "explicit" || hc.YieldMode == "explicit"
		P.MaxPreempt = basePreempt
		P.MaxAlloc = 1 << 18
		if hc.MaxAlloc > 0 {
			P.MaxAlloc = hc.MaxAlloc
		}
		if v, ok := cfg.MaxPreemptTier[*tier]; ok {
			P.MaxPreempt = v
		}
		if hc.MaxPreempt > 0 { // a harness-level bound wins over the check-level ones
			P.MaxPreempt = hc.MaxPreempt
		}
		if v, ok := hc.MaxPreemptTier[*tier]; ok {
			P.MaxPreempt = v
		}
		P.ConcreteClock = cfg.ClockMode == "concrete" || hc.ClockMode == "concrete"
		maxSec := 600
		if *tier == "thorough" {
			maxSec = 3600
		}
		if v, ok := hc.MaxSeconds[*tier]; ok {
			maxSec = v
		}
		res := sym.Explore(P, hs, sym.ExploreOpts{Workers: *workers, MaxPaths: maxPaths, SolverName: *solver, TimeoutMs: timeout, MaxViolations: 50,
			Deadline: time.Now().Add(time.Duration(maxSec) * time.Second), Progress: *verbose})
		results = append(results, hres{hc, res})
		states += res.Paths
		transitions += res.Steps
		for i := 0; i < 3; i++ {
			queries[i] += res.Queries[i]
		}
		solverMs += res.SolverMs
		obligations += res.Obligations
		trivial += res.Trivial
		ascii = ascii || res.ASCIIAssumed
		for k := range res.Funcs {
			funcs[k] = true
		}
		for k := range res.StubsUsed {
			stubs[k] = true
		}
		sum := map[string]interface{}{
			"harness": hs.Name, "what": hc.What, "paths": res.Paths, "feasible": res.Feasible, "infeasible": res.Infeasible,
			"steps": res.Steps, "obligations_unsat": res.Obligations, "obligations_trivial": res.Trivial,
			"queries":   map[string]int{"unsat": res.Queries[0], "sat": res.Queries[1], "unknown": res.Queries[2]},
			"solver_ms": int(res.SolverMs), "wall_s": round2(res.WallS), "params": hs.Params, "twin": hc.Twin,
			"violations": len(res.Violations), "max_decisions": res.MaxDecisions, "reached": res.Reached,
		}
		harnessSummaries = append(harnessSummaries, sum)
		if *verbose {
			fmt.Fprintf(os.Stderr, "[%s] paths=%d feasible=%d infeasible=%d obligations=%d(+%d trivial) viol=%d inconcl=%d q=%v solver=%.0fms wall=%.1fs\n",
				hs.Name, res.Paths, res.Feasible, res.Infeasible, res.Obligations, res.Trivial, len(res.Violations), len(res.Inconclusive), res.Queries, res.SolverMs, res.WallS)
			for n, c := range res.Notes {
				fmt.Fprintf(os.Stderr, "   note x%d: %s\n", c, n)
			}
		}
		for _, e := range res.SolverErrors {
			inconclusive = append(inconclusive, hs.Name+": solver: "+e)
		}
		for _, r := range res.Inconclusive {
			inconclusive = append(inconclusive, hs.Name+": "+r)
		}
		for _, l := range hc.MustReach {
			if res.Reached[l] == 0 && !hc.Twin {
				inconclusive = append(inconclusive, fmt.Sprintf("%s: vacuity: label %q reached on no feasible path", hs.Name, l))
			}
		}
		for _, s := range res.Samples {
			if len(samples) < 12 {
				samples = append(samples, s)
			}
		}
		if hc.Twin {
			if len(res.Violations) == 0 {
				inconclusive = append(inconclusive, fmt.Sprintf("%s: twin harness produced no violation (assertions unreachable or encoding insensitive)", hs.Name))
				continue
			}
			// replay the first twin violation natively: validates the encoding against the implementation
			v := res.Violations[0]
			if !*noReplay && !hc.NoReplay {
				dir := writeReplay(*verifDir, *repoDir, cfg, hc, hs, v, "twin")
				ok, out := runReplayDir(*repoDir, dir)
				replays++
				if ok {
					replayOK++
				} else {
					inconclusive = append(inconclusive, fmt.Sprintf("%s: twin counterexample did not reproduce natively (encoding error?)\n%s", hs.Name, tail(out, 15)))
				}
			}
			if len(samples) < 12 {
				samples = append(samples, map[string]interface{}{"twin": hs.Name, "expected_violation": v.Label, "tape": v.Tape})
			}
			continue
		}
		confirmedSig := map[string]bool{}
		lastOfSig := map[string]int{}
		for i, v := range res.Violations {
			lastOfSig[v.Sig] = i
		}
		for i, v := range res.Violations {
			if confirmedSig[v.Sig] {
				continue // one confirmed counterexample per signature is reported
			}
			// known finding?
			ki := matchKnown(known, cfg.Property, v)
			confirmed := true
			var dir string
			if *noReplay || hc.NoReplay {
				// schedule counterexamples: the replay directory holds tape and schedule
				dir = writeReplay(*verifDir, *repoDir, cfg, hc, hs, v, fmt.Sprintf("%d", i))
			}
			if !*noReplay && !hc.NoReplay {
				dir = writeReplay(*verifDir, *repoDir, cfg, hc, hs, v, fmt.Sprintf("%d", i))
				ok, out := runReplayDir(*repoDir, dir)
				replays++
				if ok {
					replayOK++
				} else {
					confirmed = false
					if lastOfSig[v.Sig] == i && hc.ReplayOptional {
						confirmed = true
						fmt.Fprintf(os.Stderr, "note: %s: counterexample holds in the environment model only (a native run cannot exhibit it)\n", hs.Name)
					} else if lastOfSig[v.Sig] == i {
						// none of the counterexamples with this signature reproduced
						inconclusive = append(inconclusive, fmt.Sprintf("%s: UNCONFIRMED counterexample (%s %s @%s) did not reproduce natively\n%s", hs.Name, v.Kind, v.Label, v.Pos, tail(out, 15)))
					}
				}
			}
			if !confirmed {
				continue
			}
			confirmedSig[v.Sig] = true
			if ki >= 0 {
				usedKnown[ki] = true
				knownLines = append(knownLines, fmt.Sprintf("KNOWN-FINDING: property=%s %s [%s %s %s @%s]", cfg.Property, known.Findings[ki].What, hs.Name, v.Kind, v.Label, v.Pos))
				continue
			}
			totalViol++
			newViol = append(newViol, fmt.Sprintf("VIOLATION property=%s replay=%s", cfg.Property, dir))
			fmt.Fprintf(os.Stderr, "violation: %s %s %q %s @%s tape=%v\n", hs.Name, v.Kind, v.Label, v.Msg, v.Pos, v.Tape)
			if len(samples) < 12 {
				samples = append(samples, map[string]interface{}{"violation": hs.Name, "kind": v.Kind, "label": v.Label, "msg": v.Msg, "pos": v.Pos, "tape": v.Tape})
			}
		}
	}

	sort.Strings(knownLines)
	for _, l := range dedupe(knownLines) {
		fmt.Println(l)
	}
	for _, l := range newViol {
		fmt.Println(l)
	}
	for _, l := range inconclusive {
		fmt.Fprintln(os.Stderr, "INCONCLUSIVE:", l)
	}

	// evidence
	var fl []string
	for f := range funcs {
		fl = append(fl, f)
	}
	sort.Strings(fl)
	var sl []string
	for s := range stubs {
		sl = append(sl, s)
	}
	sort.Strings(sl)
	assumptions := append([]string{}, cfg.Assumptions...)
	if ascii {
		assumptions = append(assumptions, "symbolic string bytes passed through range/ToLower/ToUpper are restricted to ASCII (<0x80)")
	}
	assumptions = append(assumptions,
		"go/ssa (x/tools v0.29.0) semantics as interpreted by gosym; sequentially consistent memory; intrinsic models listed under stubs",
		"solver: "+*solver+" via one persistent process per worker; any (error / unknown / timeout is reported as inconclusive (exit 2), never as success")
	if len(samples) == 0 {
		samples = append(samples, "no obligations discharged")
	}
	ev := map[string]interface{}{
		"property_id": cfg.Property,
		"tier":        *tier,
		"seed":        seed,
		"level":       "model_checking",
		"coverage": map[string]interface{}{
			"states":                        states,
			"transitions":                   transitions,
			"traces_validated_against_impl": replayOK,
			"samples":                       samples,
			"exhaustive":                    len(inconclusive) == 0,
			"explanation":                   "states = symbolic paths explored (each ends in solver queries over all values of its symbolic inputs); transitions = SSA instructions executed symbolically; traces_validated_against_impl = solver models (twin counterexamples, findings) replayed natively with go test -overlay and reproduced",
			"functions_encoded":             fl,
			"bounds":                        cfg.Bounds[*tier],
			"queries":                       map[string]int{"unsat": queries[0], "sat": queries[1], "unknown": queries[2]},
			"obligations_discharged_unsat":  obligations,
			"obligations_folded_true":       trivial,
			"solver_ms":                     int(solverMs),
			"load_and_ssa_build_s":          round2(loadS),
			"stubs":                         sl,
			"outside_claim":                 cfg.OutsideClaim,
			"harnesses":                     harnessSummaries,
			"native_replays_attempted":      replays,
			"inconclusive":                  inconclusive,
			"known_findings_matched":        dedupe(knownLines),
		},
		"assumptions": assumptions,
		"wall_s":      round2(time.Since(t0).Seconds()),
		"violations":  totalViol,
	}
	if !*noEvid && *only == "" {
		os.MkdirAll(filepath.Join(*verifDir, "evidence"), 0o755)
		eb, _ := json.MarshalIndent(ev, "", " ")
		if err := os.WriteFile(filepath.Join(*verifDir, "evidence", cfg.Property+".json"), eb, 0o644); err != nil {
			fatalf(2, "write evidence: %v", err)
		}
	}
	fmt.Fprintf(os.Stderr, "%s %s: paths=%d steps=%d obligations=%d(+%d) queries(unsat/sat/unknown)=%d/%d/%d solver=%.1fs replays=%d/%d wall=%.1fs violations=%d known=%d inconclusive=%d\n",
		cfg.Property, *tier, states, transitions, obligations, trivial, queries[0], queries[1], queries[2], solverMs/1000, replayOK, replays, time.Since(t0).Seconds(), totalViol, len(dedupe(knownLines)), len(inconclusive))
	pprof.StopCPUProfile()
	if totalViol > 0 {
		os.Exit(1)
	}
	if len(inconclusive) > 0 {
		os.Exit(2)
	}
}

func flagSet(name string) bool {
	f := false
	flag.Visit(func(fl *flag.Flag) {
		if fl.Name == name {
			f = true
		}
	})
	return f
}

func contains(l []string, s string) bool {
	for _, x := range l {
		if x == s {
			return true
		}
	}
	return false
}

func dedupe(l []string) []string {
	seen := map[string]bool{}
	out := []string{}
	for _, s := range l {
		if !seen[s] {
			seen[s] = true
			out = append(out, s)
		}
	}
	return out
}

func round2(f float64) float64 { return float64(int(f*100)) / 100 }

func tail(s string, n int) string {
	ls := strings.Split(strings.TrimRight(s, "\n"), "\n")
	if len(ls) > n {
		ls = ls[len(ls)-n:]
	}
	return strings.Join(ls, "\n")
}

func matchKnown(k KnownFile, prop string, v sym.Violation) int {
	for i, f := range k.Findings {
		if f.Status != "known" || f.Property != prop {
			continue
		}
		if f.Harness != "" && f.Harness != v.Harness {
			continue
		}
		if f.Kind != "" && f.Kind != v.Kind {
			continue
		}
		if f.Label != "" && f.Label != v.Label {
			continue
		}
		if f.PosFile != "" {
			pf := v.Pos
			if j := strings.LastIndex(pf, ":"); j >= 0 {
				pf = pf[:j]
			}
			if pf != f.PosFile {
				continue
			}
		}
		return i
	}
	return -1
}

func inList(list, name string) bool {
	for _, x := range strings.Split(list, ",") {
		if x == name {
			return true
		}
	}
	return false
}

// ---- native replay ----

func writeReplay(verifDir, repoDir string, cfg CheckCfg, hc HarnessCfg, hs *sym.HarnessSpec, v sym.Violation, tag string) string {
	base := filepath.Join(verifDir, "replays")
	if d := os.Getenv("VERIF_REPLAY_DIR"); d != "" { // development runs against a scratch copy
		base = d
	}
	dir := filepath.Join(base, cfg.Property, hc.Func+"_"+tag)
	os.RemoveAll(dir)
	os.MkdirAll(dir, 0o755)
	tape := map[string]interface{}{"tape": v.Tape, "params": hs.Params, "sched": v.Sched}
	if v.Tape == nil {
		tape["tape"] = []interface{}{}
	}
	tb, _ := json.MarshalIndent(tape, "", " ")
	os.WriteFile(filepath.Join(dir, "tape.json"), tb, 0o644)
	// package name of the harness package
	pkgName := packageName(filepath.Join(verifDir, "harness", hc.Pkg))
	test := fmt.Sprintf(`package %s

import (
	"fmt"
	"testing"

	"github.com/cnotch/ipchub/zzverif/symapi"
)

func TestVerifReplay(t *testing.T) {
	defer func() {
		r := recover()
		if r == nil {
			fmt.Println("REPLAY-NOT-REPRODUCED: harness returned normally")
			return
		}
		if v, ok := r.(symapi.Violation); ok {
			fmt.Println("REPLAY-REPRODUCED assert", v.Label)
			return
		}
		if s, ok := r.(string); ok && len(s) > 12 && s[:12] == "verif replay" {
			fmt.Println("REPLAY-ERROR", s)
			return
		}
		fmt.Printf("REPLAY-REPRODUCED panic %%v\n", r)
	}()
	%s()
}
`, pkgName, hc.Func)
	os.WriteFile(filepath.Join(dir, "zz_verif_replay_test.go"), []byte(test), 0o644)
	// overlay
	lc := sym.LoadConfig{RepoDir: repoDir, HarnessDir: filepath.Join(verifDir, "harness"), Packages: cfg.Packages}
	_, real, err := sym.BuildOverlay(lc)
	if err != nil {
		fatalf(2, "overlay: %v", err)
	}
	repl := map[string]string{}
	for virt, rp := range real {
		repl[virt] = rp
	}
	repl[filepath.Join(repoDir, hc.Pkg, "zz_verif_replay_test.go")] = filepath.Join(dir, "zz_verif_replay_test.go")
	ob, _ := json.MarshalIndent(map[string]interface{}{"Replace": repl}, "", " ")
	os.WriteFile(filepath.Join(dir, "overlay.json"), ob, 0o644)
	meta := map[string]interface{}{"property": cfg.Property, "harness": hs.Name, "pkg": hc.Pkg, "kind": v.Kind, "label": v.Label, "msg": v.Msg, "pos": v.Pos,
		"cmd": fmt.Sprintf("cd %s && VERIF_TAPE=%s/tape.json go test -tags verif -vet=off -count=1 -overlay %s/overlay.json -run '^TestVerifReplay$' ./%s", repoDir, dir, dir, hc.Pkg)}
	mb, _ := json.MarshalIndent(meta, "", " ")
	os.WriteFile(filepath.Join(dir, "meta.json"), mb, 0o644)
	return dir
}

func unusedContainsDir(pkgs []string, repoDir, d string) bool {
	for _, p := range pkgs {
		if filepath.Join(repoDir, p) == d {
			return true
		}
	}
	return false
}

func packageName(dir string) string {
	ents, _ := os.ReadDir(dir)
	for _, e := range ents {
		if strings.HasSuffix(e.Name(), ".go") {
			b, _ := os.ReadFile(filepath.Join(dir, e.Name()))
			for _, l := range strings.Split(string(b), "\n") {
				l = strings.TrimSpace(l)
				if strings.HasPrefix(l, "package ") {
					return strings.TrimSpace(strings.TrimPrefix(l, "package "))
				}
			}
		}
	}
	return "main"
}

// runReplayDir runs a stored replay natively; returns whether the violation reproduced.
func runReplayDir(repoDir, dir string) (bool, string) {
	var meta struct {
		Pkg  string `json:"pkg"`
		Kind string `json:"kind"`
	}
	mb, err := os.ReadFile(filepath.Join(dir, "meta.json"))
	if err != nil {
		return false, err.Error()
	}
	json.Unmarshal(mb, &meta)
	cmd := exec.Command("go", "test", "-tags", "verif", "-vet=off", "-count=1", "-timeout", "120s",
		"-overlay", filepath.Join(dir, "overlay.json"), "-run", "^TestVerifReplay$", "-v", "./"+meta.Pkg)
	cmd.Dir = repoDir
	cmd.Env = append(os.Environ(), "VERIF_TAPE="+filepath.Join(dir, "tape.json"), "GOFLAGS=-mod=mod", "GOPROXY=off", "GOSUMDB=off", "GOTOOLCHAIN=local")
	out, _ := cmd.CombinedOutput()
	s := string(out)
	os.WriteFile(filepath.Join(dir, "replay.log"), out, 0o644)
	if strings.Contains(s, "REPLAY-ERROR") {
		return false, s
	}
	if strings.Contains(s, "REPLAY-REPRODUCED") {
		return true, s
	}
	if strings.Contains(s, "REPLAY-NOT-REPRODUCED") {
		return false, s
	}
	// crash in another goroutine or fatal error
	if meta.Kind != "assert" && (strings.Contains(s, "panic:") || strings.Contains(s, "fatal error:")) {
		return true, s
	}
	return false, s
}
