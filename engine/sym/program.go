package sym

import (
	"fmt"
	"go/token"
	"go/types"
	"os"
	"path/filepath"
	"strings"

	"golang.org/x/tools/go/packages"
	"golang.org/x/tools/go/ssa"
	"golang.org/x/tools/go/ssa/ssautil"
)

const SymapiPath = "github.com/cnotch/ipchub/zzverif/symapi"

type Intrinsic func(fr *frame, args []Value) Value

type HarnessSpec struct {
	Name    string // pkgpath.Func
	Pkg     string
	Func    string
	Fn      *ssa.Function
	Params  map[string]int
	Threads bool
}

type Program struct {
	Prog               *ssa.Program
	Fset               *token.FileSet
	RepoModule         string
	Pkgs               map[string]*ssa.Package
	runtimeErrorString types.Type
	intrinsics         map[string]Intrinsic
	stubFns            map[string]*ssa.Function // name -> replacement function
	stubKinds          map[string]string        // name -> noop|zero

	MaxSteps      int
	MaxDecisions  int
	MaxConcretize int
	MaxAlloc      int
	MaxSymIndex   int
	AllocEnumMax  int
	SymMapOrder   bool
	PoolSymbolic  bool
	ExplicitYield bool
	ConcreteClock bool
	MaxPreempt    int
	MaxThreads    int
	YieldFields   map[string]bool
	Trace         bool
	SkipInit      map[string]bool
	Threaded      map[string]bool
	LoadSeconds   float64
}

type LoadConfig struct {
	RepoDir    string
	HarnessDir string   // /verif/harness: <pkg rel path>/zz_verif_*.go and symapi/
	Packages   []string // repo-relative package dirs, e.g. "utils/bits"
	Tags       []string
}

// BuildOverlay maps virtual paths inside the repo to harness files.
func BuildOverlay(cfg LoadConfig) (map[string][]byte, map[string]string, error) {
	ov := map[string][]byte{}
	real := map[string]string{}
	add := func(virtual, realPath string) error {
		b, err := os.ReadFile(realPath)
		if err != nil {
			return err
		}
		ov[virtual] = b
		real[virtual] = realPath
		return nil
	}
	// symapi
	if err := add(filepath.Join(cfg.RepoDir, "zzverif/symapi/symapi.go"), filepath.Join(cfg.HarnessDir, "symapi/symapi.go")); err != nil {
		return nil, nil, err
	}
	// harness files for every package directory present under HarnessDir
	err := filepath.Walk(cfg.HarnessDir, func(p string, info os.FileInfo, err error) error {
		if err != nil {
			return err
		}
		if info.IsDir() || !strings.HasSuffix(p, ".go") {
			return nil
		}
		rel, _ := filepath.Rel(cfg.HarnessDir, p)
		if strings.HasPrefix(rel, "symapi/") {
			return nil
		}
		if strings.HasSuffix(p, "_test.go") {
			return nil
		}
		return add(filepath.Join(cfg.RepoDir, rel), p)
	})
	if err != nil {
		return nil, nil, err
	}
	return ov, real, nil
}

func Load(cfg LoadConfig) (*Program, error) {
	ov, _, err := BuildOverlay(cfg)
	if err != nil {
		return nil, err
	}
	pcfg := &packages.Config{
		Mode: packages.NeedName | packages.NeedFiles | packages.NeedCompiledGoFiles | packages.NeedImports |
			packages.NeedDeps | packages.NeedTypes | packages.NeedSyntax | packages.NeedTypesInfo | packages.NeedTypesSizes | packages.NeedModule,
		Dir:     cfg.RepoDir,
		Overlay: ov,
		Env:     append(os.Environ(), "GOFLAGS=-mod=mod", "GOPROXY=off", "GOSUMDB=off", "GOTOOLCHAIN=local"),
	}
	if len(cfg.Tags) > 0 {
		pcfg.BuildFlags = []string{"-tags=" + strings.Join(cfg.Tags, ",")}
	}
	var pats []string
	for _, p := range cfg.Packages {
		pats = append(pats, "./"+p)
	}
	pats = append(pats, "./zzverif/symapi")
	initial, err := packages.Load(pcfg, pats...)
	if err != nil {
		return nil, err
	}
	nerr := 0
	packages.Visit(initial, nil, func(p *packages.Package) {
		for _, e := range p.Errors {
			fmt.Fprintf(os.Stderr, "load error: %s: %v\n", p.PkgPath, e)
			nerr++
		}
	})
	if nerr > 0 {
		return nil, fmt.Errorf("%d package load errors", nerr)
	}
	prog, _ := ssautil.AllPackages(initial, ssa.InstantiateGenerics)
	prog.Build()
	P := &Program{
		Prog: prog, Fset: prog.Fset, RepoModule: "github.com/cnotch/ipchub",
		Pkgs:          map[string]*ssa.Package{},
		stubFns:       map[string]*ssa.Function{},
		stubKinds:     map[string]string{},
		MaxSteps:      4_000_000,
		MaxDecisions:  4000,
		MaxConcretize: 4096,
		MaxAlloc:      1 << 18,
		MaxSymIndex:   512,
		AllocEnumMax:  48,
		MaxPreempt:    3,
		MaxThreads:    16,
		YieldFields:   map[string]bool{},
		SkipInit:      map[string]bool{},
		Threaded:      map[string]bool{},
	}
	for _, p := range prog.AllPackages() {
		P.Pkgs[p.Pkg.Path()] = p
	}
	rt := P.Pkgs["runtime"]
	if rt == nil {
		return nil, fmt.Errorf("runtime package not loaded")
	}
	P.runtimeErrorString = rt.Type("errorString").Object().Type()
	P.intrinsics = map[string]Intrinsic{}
	registerIntrinsics(P)
	return P, nil
}

func (P *Program) FindFunc(pkgRel, name string) (*ssa.Function, error) {
	path := P.RepoModule
	if pkgRel != "" && pkgRel != "." {
		path += "/" + pkgRel
	}
	pkg := P.Pkgs[path]
	if pkg == nil {
		return nil, fmt.Errorf("package %s not loaded", path)
	}
	fn := pkg.Func(name)
	if fn == nil {
		return nil, fmt.Errorf("function %s.%s not found", path, name)
	}
	return fn, nil
}

// AddStub installs a by-name substitution: target is fn.String() of the function to
// replace; repl is "noop", "zero" or "<pkgRel>:<Func>" naming a harness function.
func (P *Program) AddStub(target, repl string) error {
	switch repl {
	case "noop", "zero", "fresh", "uf":
		P.stubKinds[target] = repl
		return nil
	}
	i := strings.LastIndex(repl, ":")
	if i < 0 {
		return fmt.Errorf("bad stub replacement %q", repl)
	}
	fn, err := P.FindFunc(repl[:i], repl[i+1:])
	if err != nil {
		return err
	}
	P.stubFns[target] = fn
	return nil
}

func (P *Program) ClearStubs() {
	P.stubFns = map[string]*ssa.Function{}
	P.stubKinds = map[string]string{}
}

var blanketStubPkgs = []string{
	"github.com/cnotch/xlog",
	"go.uber.org/zap",
	"log",
}

func funcPkgPath(fn *ssa.Function) string {
	if fn.Pkg != nil {
		return fn.Pkg.Pkg.Path()
	}
	if o := fn.Origin(); o != nil && o.Pkg != nil {
		return o.Pkg.Pkg.Path()
	}
	if fn.Object() != nil && fn.Object().Pkg() != nil {
		return fn.Object().Pkg().Path()
	}
	return ""
}

func (P *Program) lookupIntrinsic(fn *ssa.Function, m *Machine) Intrinsic {
	if h, ok := m.intrCache[fn]; ok {
		return h
	}
	h := P.lookupIntrinsic1(fn, m)
	m.intrCache[fn] = h
	return h
}

func (P *Program) lookupIntrinsic1(fn *ssa.Function, m *Machine) Intrinsic {
	name := fn.String()
	if r, ok := P.stubFns[name]; ok {
		m.StubsUsed[name+" -> "+r.String()] = true
		return func(fr *frame, args []Value) Value {
			return fr.m.callSSA(fr.caller, token.NoPos, r, args, nil)
		}
	}
	if k, ok := P.stubKinds[name]; ok {
		m.StubsUsed[name+" -> "+k] = true
		switch k {
		case "fresh":
			return func(fr *frame, args []Value) Value { return fr.m.freshResult(fn) }
		case "uf":
			return func(fr *frame, args []Value) Value { return fr.m.ufResult(fn, args) }
		}
		return func(fr *frame, args []Value) Value { return fr.m.zeroResult(fn) }
	}
	if h, ok := P.intrinsics[name]; ok {
		return h
	}
	if o := fn.Origin(); o != nil {
		if h, ok := P.intrinsics[o.String()]; ok {
			return h
		}
	}
	pp := funcPkgPath(fn)
	for _, b := range blanketStubPkgs {
		if pp == b {
			m.StubsUsed[b+".* -> zero"] = true
			return func(fr *frame, args []Value) Value {
				// logger methods returning *Logger (With...) return the receiver
				res := fn.Signature.Results()
				if res.Len() == 1 && len(args) > 0 && fn.Signature.Recv() != nil &&
					types.Identical(res.At(0).Type(), fn.Signature.Recv().Type()) {
					return args[0]
				}
				return fr.m.zeroResult(fn)
			}
		}
	}
	if strings.HasPrefix(pp, P.RepoModule) || pp == "" {
		// statistics for evidence: repo functions actually executed
		if fn.Blocks != nil && !strings.Contains(name, "zzverif") {
			m.FuncsEncoded[name] = true
		}
	}
	return nil
}

// freshResult returns unconstrained symbolic values for integer/bool results (environment stub).
func (m *Machine) freshResult(fn *ssa.Function) Value {
	res := fn.Signature.Results()
	mk := func(t types.Type, i int) Value {
		if w, _, ok := intInfo(t); ok {
			v := m.newEnvVar(fmt.Sprintf("%s.%d", fn.Name(), i), BV(w))
			m.envVars = append(m.envVars, v)
			return v
		}
		if isBoolType(t) {
			v := m.newEnvVar(fmt.Sprintf("%s.%d", fn.Name(), i), BV(1))
			m.envVars = append(m.envVars, v)
			return m.tb.Eq(v, m.tb.Const(1, 1))
		}
		return m.zero(t)
	}
	switch res.Len() {
	case 0:
		return nil
	case 1:
		return mk(res.At(0).Type(), 0)
	}
	out := make(Tuple, res.Len())
	for i := range out {
		out[i] = mk(res.At(i).Type(), i)
	}
	return out
}

// ufResult returns an uninterpreted function of the integer arguments (and the integer
// fields of a struct receiver) for a single integer/bool result.
func (m *Machine) ufResult(fn *ssa.Function, args []Value) Value {
	var ts []*Term
	for _, a := range args {
		switch a := a.(type) {
		case *Term:
			ts = append(ts, a)
		case *Value:
			if a != nil {
				if st, ok := (*a).(Struct); ok {
					for _, f := range st {
						if t, ok := f.(*Term); ok {
							ts = append(ts, t)
						}
					}
				}
			}
		}
	}
	res := fn.Signature.Results()
	if res.Len() != 1 {
		m.unsupported("uf stub needs exactly one result: %s", fn)
	}
	if w, _, ok := intInfo(res.At(0).Type()); ok {
		return m.tb.UF("uf."+fn.Name(), BV(w), ts...)
	}
	if isBoolType(res.At(0).Type()) {
		return m.tb.UF("uf."+fn.Name(), BoolSort, ts...)
	}
	m.unsupported("uf stub result type %s", res.At(0).Type())
	return nil
}
