package sym

import (
	"fmt"
	"go/types"
	"strings"
)

// A small file-system model with crash semantics (DESIGN A.7):
//
//	open with O_TRUNC  -> length 0 durable at once
//	write              -> volatile; at a crash any prefix of the unsynced bytes may be durable
//	sync               -> everything written is durable
//	close              -> nothing
//	rename             -> atomic and durable; the renamed file keeps its own durable/volatile images
type vfile struct {
	exists   bool
	durable  []*Term
	volatile []*Term
}

type vhandle struct {
	f    *vfile // the file object: stays readable after the name is removed (POSIX unlink)
	path string
	off  int
}

type vfs struct {
	files map[string]*vfile
	open  map[*Value]*vhandle // *os.File cell -> open file
	ops   []string
}

func (m *Machine) vfs() *vfs {
	if f, ok := m.side["vfs"]; ok {
		return f.(*vfs)
	}
	f := &vfs{files: map[string]*vfile{}, open: map[*Value]*vhandle{}}
	m.side["vfs"] = f
	return f
}

func (m *Machine) osErr(msg string) Value { return m.newError(msg) }

// fileInfo builds an *os.fileStat whose size field is n.
func (m *Machine) fileInfo(n int) Value {
	osp := m.P.Pkgs["os"]
	tn := osp.Type("fileStat")
	if tn == nil {
		m.unsupported("os.fileStat not found")
	}
	t := tn.Object().Type()
	st := t.Underlying().(*types.Struct)
	v := m.zero(t).(Struct)
	for i := 0; i < st.NumFields(); i++ {
		if st.Field(i).Name() == "size" {
			v[i] = m.tb.Const(64, uint64(n))
		}
	}
	var cell Value = v
	return Iface{T: types.NewPointer(t), V: &cell}
}

// eofError returns the io.EOF singleton.
func (m *Machine) eofError() Value {
	iop := m.P.Pkgs["io"]
	if iop == nil {
		m.unsupported("io package not loaded")
	}
	g := iop.Var("EOF")
	return *m.global(g)
}

func registerOSIntrinsics(P *Program) {
	in := P.intrinsics
	sa := SymapiPath + "."
	const (
		oCREATE = 0x40
		oTRUNC  = 0x200
		oAPPEND = 0x400
	)
	in["os.OpenFile"] = func(fr *frame, args []Value) Value {
		m := fr.m
		path := m.concStr(args[0], "os.OpenFile path")
		flag := m.concInt(args[1], "os.OpenFile flag")
		fs := m.vfs()
		f := fs.files[path]
		if f == nil || !f.exists {
			if flag&oCREATE == 0 {
				return Tuple{(*Value)(nil), m.osErr("open " + path + ": no such file or directory")}
			}
			f = &vfile{exists: true, durable: []*Term{}, volatile: []*Term{}}
			fs.files[path] = f
		}
		if flag&oTRUNC != 0 {
			f.durable = []*Term{}
			f.volatile = []*Term{}
		}
		fs.ops = append(fs.ops, fmt.Sprintf("open(%s,%#x)", path, flag))
		osp := m.P.Pkgs["os"]
		var cell Value = m.zero(osp.Type("File").Object().Type())
		p := &cell
		fs.open[p] = &vhandle{f: f, path: path}
		return Tuple{p, Iface{}}
	}
	in["os.Open"] = func(fr *frame, args []Value) Value {
		return in["os.OpenFile"](fr, []Value{args[0], fr.m.tb.Const(64, 0), fr.m.tb.Const(32, 0)})
	}
	in["os.Create"] = func(fr *frame, args []Value) Value {
		return in["os.OpenFile"](fr, []Value{args[0], fr.m.tb.Const(64, 0x241), fr.m.tb.Const(32, 0o666)})
	}
	fileOf := func(m *Machine, v Value) *vfile {
		p := m.derefPtr(v)
		fs := m.vfs()
		h, ok := fs.open[p]
		if !ok {
			m.unsupported("operation on unknown *os.File")
		}
		return h.f
	}
	in["(*os.File).Read"] = func(fr *frame, args []Value) Value {
		m := fr.m
		p := m.derefPtr(args[0])
		h, ok := m.vfs().open[p]
		if !ok {
			m.unsupported("read on unknown *os.File")
		}
		buf := args[1].([]Value)
		if h.off >= len(h.f.volatile) {
			if len(buf) == 0 {
				return Tuple{m.tb.Const(64, 0), Iface{}}
			}
			return Tuple{m.tb.Const(64, 0), m.eofError()}
		}
		n := 0
		for n < len(buf) && h.off < len(h.f.volatile) {
			buf[n] = h.f.volatile[h.off]
			n++
			h.off++
		}
		return Tuple{m.tb.Const(64, uint64(n)), Iface{}}
	}
	in["os.Truncate"] = func(fr *frame, args []Value) Value {
		m := fr.m
		path := m.concStr(args[0], "truncate path")
		size := int(m.concInt(args[1], "truncate size"))
		f := m.vfs().files[path]
		if f == nil || !f.exists {
			return m.osErr("truncate " + path + ": no such file or directory")
		}
		if size < len(f.volatile) {
			f.volatile = f.volatile[:size]
		}
		for len(f.volatile) < size {
			f.volatile = append(f.volatile, m.tb.Const(8, 0))
		}
		if size < len(f.durable) {
			f.durable = f.durable[:size]
		}
		m.vfs().ops = append(m.vfs().ops, fmt.Sprintf("truncate(%d)", size))
		return Iface{}
	}
	in["(*os.File).Write"] = func(fr *frame, args []Value) Value {
		m := fr.m
		f := fileOf(m, args[0])
		b := sliceTerms(args[1].([]Value))
		f.volatile = append(f.volatile, b...)
		m.vfs().ops = append(m.vfs().ops, fmt.Sprintf("write(%d)", len(b)))
		return Tuple{m.tb.Const(64, uint64(len(b))), Iface{}}
	}
	in["(*os.File).WriteString"] = func(fr *frame, args []Value) Value {
		m := fr.m
		f := fileOf(m, args[0])
		b := m.strBytes(args[1].(Str))
		f.volatile = append(f.volatile, b...)
		return Tuple{m.tb.Const(64, uint64(len(b))), Iface{}}
	}
	in["(*os.File).Sync"] = func(fr *frame, args []Value) Value {
		m := fr.m
		f := fileOf(m, args[0])
		f.durable = append([]*Term{}, f.volatile...)
		m.vfs().ops = append(m.vfs().ops, "sync")
		return Iface{}
	}
	in["(*os.File).Close"] = func(fr *frame, args []Value) Value {
		m := fr.m
		p, _ := args[0].(*Value)
		if p == nil {
			return m.osErr("invalid argument")
		}
		m.vfs().ops = append(m.vfs().ops, "close")
		return Iface{}
	}
	in["os.Rename"] = func(fr *frame, args []Value) Value {
		m := fr.m
		from, to := m.concStr(args[0], "rename from"), m.concStr(args[1], "rename to")
		fs := m.vfs()
		f := fs.files[from]
		if f == nil || !f.exists {
			return m.osErr("rename: no such file")
		}
		fs.files[to] = f
		delete(fs.files, from)
		for _, h := range fs.open {
			if h.path == from {
				h.path = to
			}
		}
		fs.ops = append(fs.ops, "rename")
		return Iface{}
	}
	in["os.Remove"] = func(fr *frame, args []Value) Value {
		m := fr.m
		path := m.concStr(args[0], "remove path")
		fs := m.vfs()
		if f := fs.files[path]; f == nil || !f.exists {
			return m.osErr("remove: no such file")
		}
		delete(fs.files, path)
		return Iface{}
	}
	// os.Stat / os.Lstat: existence and size are modelled (the FileInfo is an *os.fileStat with
	// only its size field set). os.IsNotExist recognises the model's
	// "no such file" errors.
	stat := func(fr *frame, args []Value) Value {
		m := fr.m
		path := m.concStr(args[0], "stat path")
		f := m.vfs().files[path]
		if f == nil || !f.exists {
			return Tuple{Iface{}, m.osErr("stat " + path + ": no such file or directory")}
		}
		return Tuple{m.fileInfo(len(f.volatile)), Iface{}}
	}
	in["os.Stat"] = stat
	in["os.Lstat"] = stat
	in["os.IsNotExist"] = func(fr *frame, args []Value) Value {
		m := fr.m
		e, ok := args[0].(Iface)
		if !ok || e.T == nil {
			return m.tb.False()
		}
		if p, ok := e.V.(*Value); ok && p != nil {
			if st, ok := (*p).(Struct); ok && len(st) == 1 {
				if msg, ok := st[0].(Str); ok && msg.B == nil {
					return m.tb.Bool(strings.Contains(msg.S, "no such file"))
				}
			}
		}
		return m.tb.False()
	}
	readFile := func(fr *frame, args []Value) Value {
		m := fr.m
		path := m.concStr(args[0], "read path")
		f := m.vfs().files[path]
		if f == nil || !f.exists {
			return Tuple{[]Value(nil), m.osErr("open " + path + ": no such file or directory")}
		}
		out := make([]Value, len(f.volatile))
		for i, b := range f.volatile {
			out[i] = b
		}
		return Tuple{out, Iface{}}
	}
	in["os.ReadFile"] = readFile
	in["io/ioutil.ReadFile"] = readFile

	// ---- symapi side ----
	in[sa+"TempPath"] = func(fr *frame, args []Value) Value {
		return Str{S: "/vfs/" + fr.m.concStr(args[0], "TempPath name")}
	}
	in[sa+"SetFile"] = func(fr *frame, args []Value) Value {
		m := fr.m
		path := m.concStr(args[0], "SetFile path")
		b := sliceTerms(args[1].([]Value))
		m.vfs().files[path] = &vfile{exists: true, durable: append([]*Term{}, b...), volatile: append([]*Term{}, b...)}
		return nil
	}
	in[sa+"DurableFile"] = func(fr *frame, args []Value) Value {
		m := fr.m
		path := m.concStr(args[0], "DurableFile path")
		f := m.vfs().files[path]
		if f == nil || !f.exists {
			return Tuple{[]Value(nil), m.tb.False()}
		}
		img := append([]*Term{}, f.durable...)
		// unsynced tail: any prefix of it may have reached the disk
		if len(f.volatile) > len(f.durable) {
			isPrefix := true
			for i := range f.durable {
				if f.durable[i] != f.volatile[i] {
					isPrefix = false
				}
			}
			if isPrefix {
				extra := len(f.volatile) - len(f.durable)
				k := m.choose(extra+1, 'n')
				m.tape = append(m.tape, TapeEntry{Name: "durable-prefix", Kind: "env", Val: uint64(k)})
				m.tape = m.tape[:len(m.tape)-1] // environment choice: not part of the harness tape
				img = append(img, f.volatile[len(f.durable):len(f.durable)+k]...)
			}
		}
		out := make([]Value, len(img))
		for i, b := range img {
			out[i] = b
		}
		return Tuple{out, m.tb.True()}
	}

	// encoding/json (reflection): opaque but deterministic content
	in["encoding/json.Marshal"] = func(fr *frame, args []Value) Value {
		m := fr.m
		s := "{\"json\":1}"
		out := make([]Value, len(s))
		for i := 0; i < len(s); i++ {
			out[i] = m.tb.Const(8, uint64(s[i]))
		}
		return Tuple{out, Iface{}}
	}
	in["encoding/json.Indent"] = func(fr *frame, args []Value) Value {
		m := fr.m
		// dst *bytes.Buffer: call its Write method
		f := m.P.Prog.LookupMethod(types.NewPointer(m.P.Pkgs["bytes"].Type("Buffer").Object().Type()), nil, "Write")
		m.call(fr, m.curPos, f, []Value{args[0], args[1]})
		return Iface{}
	}
}
