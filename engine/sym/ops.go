package sym

import (
	"fmt"
	"go/constant"
	"go/token"
	"go/types"
	"math"

	"golang.org/x/tools/go/ssa"
)

func (m *Machine) constValue(c *ssa.Const) Value {
	if c.Value == nil {
		return m.zero(c.Type())
	}
	t := c.Type()
	if tp, ok := t.(*types.TypeParam); ok {
		_ = tp
		m.unsupported("const of type param")
	}
	if b, ok := t.Underlying().(*types.Basic); ok {
		switch {
		case b.Info()&types.IsBoolean != 0:
			return m.tb.Bool(constant.BoolVal(c.Value))
		case b.Info()&types.IsString != 0:
			if c.Value.Kind() == constant.String {
				return Str{S: constant.StringVal(c.Value)}
			}
			return Str{S: string(rune(c.Int64()))}
		case b.Info()&types.IsInteger != 0:
			w, signed, _ := intInfo(b)
			if signed {
				return m.tb.Const(w, uint64(c.Int64()))
			}
			return m.tb.Const(w, c.Uint64())
		case b.Kind() == types.Float32:
			return float32(c.Float64())
		case b.Kind() == types.Float64 || b.Kind() == types.UntypedFloat:
			return c.Float64()
		case b.Kind() == types.Complex64:
			return complex64(c.Complex128())
		case b.Kind() == types.Complex128:
			return c.Complex128()
		case b.Kind() == types.UnsafePointer:
			return UPtr{}
		}
	}
	m.unsupported("constValue: %s", c)
	return nil
}

func (m *Machine) intOf(v Value) *Term {
	t, ok := v.(*Term)
	if !ok {
		m.unsupported("expected integer term, got %T", v)
	}
	return t
}

// shiftAmount normalises a shift count to the width of the shifted operand, saturating.
func (m *Machine) shiftAmount(y *Term, yt types.Type, w int) *Term {
	yw, ysigned, _ := intInfo(yt)
	_ = yw
	if ysigned {
		neg := m.tb.Cmp(OpSLt, y, m.tb.Const(y.Sort.W, 0))
		if m.branch(neg) {
			m.runtimePanic("negative shift amount")
		}
	}
	if y.Sort.W == w {
		// saturate not needed: SMT semantics give 0 for >= w (lshr/shl); ashr gives sign fill
		return y
	}
	if y.Sort.W < w {
		return m.tb.ZExt(y, w)
	}
	// wider count: saturate to w
	big := m.tb.Cmp(OpULe, m.tb.Const(y.Sort.W, uint64(w)), y)
	return m.tb.Ite(big, m.tb.Const(w, uint64(w)), m.tb.Extract(y, w-1, 0))
}

func (m *Machine) binop(op token.Token, t types.Type, x, y Value) Value {
	tb := m.tb
	switch xv := x.(type) {
	case *Term:
		yv, ok := y.(*Term)
		if !ok {
			m.unsupported("binop %s on %T,%T", op, x, y)
		}
		if xv.Sort.Bool {
			switch op {
			case token.EQL:
				return tb.Eq(xv, yv)
			case token.NEQ:
				return tb.Not(tb.Eq(xv, yv))
			case token.AND, token.LAND:
				return tb.And(xv, yv)
			case token.OR, token.LOR:
				return tb.Or(xv, yv)
			}
			m.unsupported("bool binop %s", op)
		}
		w, signed, ok := intInfo(t)
		if !ok {
			m.unsupported("int binop on type %s", t)
		}
		_ = w
		switch op {
		case token.ADD:
			return tb.Bin(OpAdd, xv, yv)
		case token.SUB:
			return tb.Bin(OpSub, xv, yv)
		case token.MUL:
			return tb.Bin(OpMul, xv, yv)
		case token.QUO, token.REM:
			zero := tb.Eq(yv, tb.Const(yv.Sort.W, 0))
			if m.branch(zero) {
				m.runtimePanic("integer divide by zero")
			}
			if signed {
				if op == token.QUO {
					return tb.Bin(OpSDiv, xv, yv)
				}
				return tb.Bin(OpSRem, xv, yv)
			}
			if op == token.QUO {
				return tb.Bin(OpUDiv, xv, yv)
			}
			return tb.Bin(OpURem, xv, yv)
		case token.AND:
			return tb.Bin(OpBAnd, xv, yv)
		case token.OR:
			return tb.Bin(OpBOr, xv, yv)
		case token.XOR:
			return tb.Bin(OpBXor, xv, yv)
		case token.AND_NOT:
			return tb.Bin(OpBAnd, xv, tb.BNot(yv))
		case token.SHL:
			return tb.Bin(OpShl, xv, yv)
		case token.SHR:
			if signed {
				return tb.Bin(OpAShr, xv, yv)
			}
			return tb.Bin(OpLShr, xv, yv)
		case token.EQL:
			return tb.Eq(xv, yv)
		case token.NEQ:
			return tb.Not(tb.Eq(xv, yv))
		case token.LSS:
			if signed {
				return tb.Cmp(OpSLt, xv, yv)
			}
			return tb.Cmp(OpULt, xv, yv)
		case token.LEQ:
			if signed {
				return tb.Cmp(OpSLe, xv, yv)
			}
			return tb.Cmp(OpULe, xv, yv)
		case token.GTR:
			if signed {
				return tb.Cmp(OpSLt, yv, xv)
			}
			return tb.Cmp(OpULt, yv, xv)
		case token.GEQ:
			if signed {
				return tb.Cmp(OpSLe, yv, xv)
			}
			return tb.Cmp(OpULe, yv, xv)
		}
		m.unsupported("int binop %s", op)

	case float64:
		yv, ok := y.(float64)
		if !ok {
			return m.fsymBinop(op, x, y)
		}
		switch op {
		case token.ADD:
			return xv + yv
		case token.SUB:
			return xv - yv
		case token.MUL:
			return xv * yv
		case token.QUO:
			return xv / yv
		case token.EQL:
			return tb.Bool(xv == yv)
		case token.NEQ:
			return tb.Bool(xv != yv)
		case token.LSS:
			return tb.Bool(xv < yv)
		case token.LEQ:
			return tb.Bool(xv <= yv)
		case token.GTR:
			return tb.Bool(xv > yv)
		case token.GEQ:
			return tb.Bool(xv >= yv)
		}
	case float32:
		yv := y.(float32)
		switch op {
		case token.ADD:
			return xv + yv
		case token.SUB:
			return xv - yv
		case token.MUL:
			return xv * yv
		case token.QUO:
			return xv / yv
		case token.EQL:
			return tb.Bool(xv == yv)
		case token.NEQ:
			return tb.Bool(xv != yv)
		case token.LSS:
			return tb.Bool(xv < yv)
		case token.LEQ:
			return tb.Bool(xv <= yv)
		case token.GTR:
			return tb.Bool(xv > yv)
		case token.GEQ:
			return tb.Bool(xv >= yv)
		}
	case *FSym:
		return m.fsymBinop(op, x, y)

	case Str:
		yv := y.(Str)
		switch op {
		case token.ADD:
			return m.strConcat(xv, yv)
		case token.EQL:
			return m.strEq(xv, yv)
		case token.NEQ:
			return tb.Not(m.strEq(xv, yv))
		case token.LSS:
			return m.strLess(xv, yv, false)
		case token.LEQ:
			return m.strLess(xv, yv, true)
		case token.GTR:
			return m.strLess(yv, xv, false)
		case token.GEQ:
			return m.strLess(yv, xv, true)
		}
	}
	switch op {
	case token.EQL:
		return m.equals(t, x, y)
	case token.NEQ:
		return tb.Not(m.equals(t, x, y))
	}
	m.unsupported("binop %s on %T", op, x)
	return nil
}

// binopShift handles shifts, where x and y have different types.
func (m *Machine) binopShift(instr *ssa.BinOp, x, y Value) Value {
	xv := m.intOf(x)
	yv := m.intOf(y)
	w, signed, _ := intInfo(instr.X.Type())
	amt := m.shiftAmount(yv, instr.Y.Type(), w)
	if instr.Op == token.SHL {
		return m.tb.Bin(OpShl, xv, amt)
	}
	if signed {
		return m.tb.Bin(OpAShr, xv, amt)
	}
	return m.tb.Bin(OpLShr, xv, amt)
}

func (m *Machine) unop(instr *ssa.UnOp, x Value) Value {
	tb := m.tb
	switch instr.Op {
	case token.ARROW:
		return m.chanRecv(x.(*Chan), instr.CommaOk)
	case token.MUL:
		if sp, ok := x.(*SymPtr); ok {
			return m.symLoad(sp)
		}
		v := load(m.derefPtr(x))
		// *(*string)(unsafe.Pointer(&byteSlice)): the cell holds a byte slice, the static type
		// is string - reinterpret (the string shares no storage in this model; such strings are
		// built once and not mutated afterwards in the code met so far)
		if bs, ok := v.([]Value); ok {
			if b, ok := instr.Type().Underlying().(*types.Basic); ok && b.Info()&types.IsString != 0 {
				allConc := true
				raw := make([]byte, len(bs))
				ts := make([]*Term, len(bs))
				for i, e := range bs {
					t, ok := e.(*Term)
					if !ok {
						m.unsupported("string reinterpretation of a non-byte slice")
					}
					ts[i] = t
					if t.IsConst() {
						raw[i] = byte(t.Val)
					} else {
						allConc = false
					}
				}
				if allConc {
					return Str{S: string(raw)}
				}
				return Str{B: ts}
			}
		}
		return v
	case token.SUB:
		switch x := x.(type) {
		case *Term:
			return tb.Neg(x)
		case float64:
			return -x
		case float32:
			return -x
		}
	case token.NOT:
		return tb.Not(x.(*Term))
	case token.XOR:
		return tb.BNot(x.(*Term))
	}
	m.unsupported("unop %s on %T", instr.Op, x)
	return nil
}

// equals returns a Bool term for x == y at static type t.
func (m *Machine) equals(t types.Type, x, y Value) *Term {
	tb := m.tb
	switch x := x.(type) {
	case *Term:
		return tb.Eq(x, y.(*Term))
	case Str:
		return m.strEq(x, y.(Str))
	case float64:
		return tb.Bool(x == y.(float64))
	case float32:
		return tb.Bool(x == y.(float32))
	case *Value:
		return tb.Bool(x == y.(*Value))
	case *Map:
		return tb.Bool(x == y.(*Map))
	case *Chan:
		return tb.Bool(x == y.(*Chan))
	case UPtr:
		return tb.Bool(x.P == y.(UPtr).P)
	case []Value:
		// only comparison with nil is legal
		yv := y.([]Value)
		return tb.Bool(x == nil && yv == nil)
	case *ssa.Function:
		switch yv := y.(type) {
		case *ssa.Function:
			return tb.Bool(x == yv)
		case *Closure:
			return tb.Bool(x == nil && yv == nil)
		}
		return tb.False()
	case *Closure:
		switch yv := y.(type) {
		case *ssa.Function:
			return tb.Bool(x == nil && yv == nil)
		case *Closure:
			return tb.Bool(x == yv)
		}
		return tb.False()
	case Iface:
		yv := y.(Iface)
		if x.T == nil || yv.T == nil {
			return tb.Bool(x.T == nil && yv.T == nil)
		}
		if !types.Identical(x.T, yv.T) {
			return tb.False()
		}
		if !types.Comparable(x.T) {
			m.runtimePanic("comparing uncomparable type " + x.T.String())
		}
		return m.equals(x.T, x.V, yv.V)
	case Struct:
		yv := y.(Struct)
		st := t.Underlying().(*types.Struct)
		r := tb.True()
		for i := range x {
			if st.Field(i).Name() == "_" {
				continue
			}
			r = tb.And(r, m.equals(st.Field(i).Type(), x[i], yv[i]))
		}
		return r
	case Array:
		yv := y.(Array)
		et := t.Underlying().(*types.Array).Elem()
		r := tb.True()
		for i := range x {
			r = tb.And(r, m.equals(et, x[i], yv[i]))
		}
		return r
	}
	m.unsupported("equals on %T", x)
	return nil
}

func (m *Machine) conv(tdst, tsrc types.Type, x Value) Value {
	tb := m.tb
	ut_src := tsrc.Underlying()
	ut_dst := tdst.Underlying()

	// pointer / unsafe.Pointer conversions
	switch ut_dst := ut_dst.(type) {
	case *types.Pointer:
		switch ut_src.(type) {
		case *types.Pointer:
			return x
		case *types.Basic: // unsafe.Pointer -> *T
			if u, ok := x.(UPtr); ok {
				if u.P == nil {
					return (*Value)(nil)
				}
				if p, ok := u.P.(*Value); ok {
					return p
				}
				m.unsupported("unsafe.Pointer -> %s from %T", tdst, u.P)
			}
		}
	case *types.Basic:
		if ut_dst.Kind() == types.UnsafePointer {
			switch xv := x.(type) {
			case *Value:
				if xv == nil {
					return UPtr{}
				}
				return UPtr{P: xv}
			case UPtr:
				return xv
			case *Term:
				if xv.IsConst() && xv.Val == 0 {
					return UPtr{}
				}
				m.unsupported("uintptr -> unsafe.Pointer")
			}
		}
	case *types.Slice:
		// string -> []byte / []rune
		if s, ok := x.(Str); ok {
			if b, ok := ut_dst.Elem().Underlying().(*types.Basic); ok && b.Kind() == types.Uint8 {
				bs := m.strBytes(s)
				out := make([]Value, len(bs))
				for i, t := range bs {
					out[i] = t
				}
				return out
			}
			if c, ok := s.Concrete(); ok {
				var out []Value
				for _, r := range c {
					out = append(out, tb.Const(32, uint64(r)))
				}
				if out == nil {
					out = []Value{}
				}
				return out
			}
			m.unsupported("symbolic string -> []rune")
		}
		return x
	}

	switch xv := x.(type) {
	case *Term:
		if xv.Sort.Bool {
			return xv
		}
		_, ssigned, ok := intInfo(tsrc)
		if !ok {
			m.unsupported("conv from %s", tsrc)
		}
		if w, _, ok := intInfo(tdst); ok {
			if w <= xv.Sort.W {
				return tb.Extract(xv, w-1, 0)
			}
			if ssigned {
				return tb.SExt(xv, w)
			}
			return tb.ZExt(xv, w)
		}
		if isFloatType(tdst) {
			if xv.IsConst() {
				var f float64
				if ssigned {
					f = float64(sext(xv.Val, xv.Sort.W))
				} else {
					f = float64(xv.Val)
				}
				if ut_dst.(*types.Basic).Kind() == types.Float32 {
					return float32(f)
				}
				return f
			}
			return m.fsymFromInt(xv, ssigned)
		}
		if isStringType(tdst) {
			// string(rune)
			if xv.IsConst() {
				return Str{S: string(rune(sext(xv.Val, xv.Sort.W)))}
			}
			m.unsupported("string(symbolic rune)")
		}
		if b, ok := ut_dst.(*types.Basic); ok && b.Kind() == types.UnsafePointer {
			m.unsupported("int -> unsafe.Pointer")
		}
	case float64:
		if w, signed, ok := intInfo(tdst); ok {
			return tb.Const(w, floatToBits(xv, signed))
		}
		if b, ok := ut_dst.(*types.Basic); ok {
			switch b.Kind() {
			case types.Float32:
				return float32(xv)
			case types.Float64:
				return xv
			}
		}
	case float32:
		if w, signed, ok := intInfo(tdst); ok {
			return tb.Const(w, floatToBits(float64(xv), signed))
		}
		if b, ok := ut_dst.(*types.Basic); ok {
			switch b.Kind() {
			case types.Float32:
				return xv
			case types.Float64:
				return float64(xv)
			}
		}
	case *FSym:
		if w, signed, ok := intInfo(tdst); ok {
			return m.fsymToInt(xv, w, signed)
		}
		if isFloatType(tdst) {
			return xv
		}
	case Str:
		if isStringType(tdst) {
			return xv
		}
	case []Value:
		// []byte / []rune -> string
		if isStringType(tdst) {
			el := ut_src.(*types.Slice).Elem().Underlying().(*types.Basic)
			if el.Kind() == types.Uint8 {
				bs := make([]*Term, len(xv))
				for i, v := range xv {
					bs[i] = v.(*Term)
				}
				return m.mkStr(bs)
			}
			// runes
			var rs []rune
			for _, v := range xv {
				t := v.(*Term)
				if !t.IsConst() {
					m.unsupported("symbolic []rune -> string")
				}
				rs = append(rs, rune(sext(t.Val, 32)))
			}
			return Str{S: string(rs)}
		}
		return xv
	case UPtr:
		if _, _, ok := intInfo(tdst); ok {
			// uintptr(unsafe.Pointer): only nil-ness and identity are meaningful
			if xv.P == nil {
				return tb.Const(64, 0)
			}
			return tb.Const(64, m.addrOf(xv.P))
		}
	}
	m.unsupported("conv %s -> %s (%T)", tsrc, tdst, x)
	return nil
}

func floatToBits(f float64, signed bool) uint64 {
	if math.IsNaN(f) {
		return 0x8000000000000000
	}
	if signed {
		if f >= 9.223372036854775807e18 || f <= -9.223372036854775808e18 {
			return 0x8000000000000000
		}
		return uint64(int64(f))
	}
	if f < 0 {
		return uint64(int64(f))
	}
	if f >= 1.8446744073709551615e19 {
		return 0x8000000000000000
	}
	return uint64(f)
}

// addrOf gives stable fake addresses for pointer->uintptr conversions.
func (m *Machine) addrOf(p Value) uint64 {
	key := fmt.Sprintf("addr:%p", p)
	if v, ok := m.side[key]; ok {
		return v.(uint64)
	}
	n := uint64(0x1000 + 64*len(m.side))
	m.side[key] = n
	return n
}

// ---- symbolic float64 (opaque): every operation is an uninterpreted function ----

func (m *Machine) fbits(v Value) *Term {
	switch v := v.(type) {
	case float64:
		return m.tb.Const(64, math.Float64bits(v))
	case float32:
		return m.tb.Const(64, math.Float64bits(float64(v)))
	case *FSym:
		return v.T
	}
	m.unsupported("float operand %T", v)
	return nil
}

func (m *Machine) fsymBinop(op token.Token, x, y Value) Value {
	a, b := m.fbits(x), m.fbits(y)
	tb := m.tb
	switch op {
	case token.ADD:
		return &FSym{tb.UF("fp.add", BV(64), a, b)}
	case token.SUB:
		return &FSym{tb.UF("fp.sub", BV(64), a, b)}
	case token.MUL:
		return &FSym{tb.UF("fp.mul", BV(64), a, b)}
	case token.QUO:
		return &FSym{tb.UF("fp.div", BV(64), a, b)}
	case token.EQL:
		return tb.UF("fp.eq", BoolSort, a, b)
	case token.NEQ:
		return tb.Not(tb.UF("fp.eq", BoolSort, a, b))
	case token.LSS:
		return tb.UF("fp.lt", BoolSort, a, b)
	case token.LEQ:
		return tb.UF("fp.le", BoolSort, a, b)
	case token.GTR:
		return tb.UF("fp.lt", BoolSort, b, a)
	case token.GEQ:
		return tb.UF("fp.le", BoolSort, b, a)
	}
	m.unsupported("float binop %s", op)
	return nil
}

func (m *Machine) fsymFromInt(x *Term, signed bool) Value {
	name := "fp.from_u"
	if signed {
		name = "fp.from_s"
	}
	x64 := x
	if x.Sort.W < 64 {
		if signed {
			x64 = m.tb.SExt(x, 64)
		} else {
			x64 = m.tb.ZExt(x, 64)
		}
	}
	return &FSym{m.tb.UF(name, BV(64), x64)}
}

func (m *Machine) fsymToInt(x *FSym, w int, signed bool) Value {
	name := "fp.to_u"
	if signed {
		name = "fp.to_s"
	}
	r := m.tb.UF(name, BV(64), x.T)
	return m.tb.Extract(r, w-1, 0)
}
