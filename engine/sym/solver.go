package sym

import (
	"bufio"
	"fmt"
	"io"
	"os"
	"os/exec"
	"strconv"
	"strings"
	"time"
)

type Result int

const (
	Unsat Result = iota
	Sat
	Unknown
)

func (r Result) String() string { return [...]string{"unsat", "sat", "unknown"}[r] }

// Solver wraps one persistent SMT solver process (z3 -in, z3-new -in, cvc5 --incremental).
type Solver struct {
	Name      string
	argv      []string
	cmd       *exec.Cmd
	in        io.WriteCloser
	out       *bufio.Reader
	tb        *TermTable
	defined   map[int]bool
	ufDecl    map[string]bool
	depth     int // assertion-stack depth we pushed
	stack     []*Term
	CheckCmd  string
	pcLevel   bool
	restarted bool
	TimeoutMs int
	Queries   [3]int
	SolverNs  int64
	Errors    []string
	Log       io.Writer
}

func NewSolver(name string, tb *TermTable, timeoutMs int) *Solver {
	s := &Solver{Name: name, tb: tb, TimeoutMs: timeoutMs, CheckCmd: "(check-sat)"}
	if c := os.Getenv("GOSYM_CHECKCMD"); c != "" {
		s.CheckCmd = c
	}
	switch name {
	case "z3":
		s.argv = []string{"z3", "-in"}
	case "z3-new":
		s.argv = []string{"z3-new", "-in"}
	case "cvc5":
		s.argv = []string{"cvc5", "--incremental", "--produce-models", "--lang=smt2", fmt.Sprintf("--tlimit-per=%d", timeoutMs)}
	default:
		panic("unknown solver " + name)
	}
	s.start()
	return s
}

func (s *Solver) start() {
	s.cmd = exec.Command(s.argv[0], s.argv[1:]...)
	var err error
	s.in, err = s.cmd.StdinPipe()
	if err != nil {
		panic(err)
	}
	op, err := s.cmd.StdoutPipe()
	if err != nil {
		panic(err)
	}
	s.cmd.Stderr = nil
	if err := s.cmd.Start(); err != nil {
		panic(err)
	}
	s.out = bufio.NewReaderSize(op, 1<<16)
	s.defined = map[int]bool{}
	s.ufDecl = map[string]bool{}
	s.depth = 0
	s.stack = nil
	s.pcLevel = false
	if s.Name != "cvc5" {
		s.send(fmt.Sprintf("(set-option :timeout %d)", s.TimeoutMs))
		s.send("(set-option :model.completion true)")
		s.send("(set-option :global-declarations true)")
	} else {
		s.send("(set-option :global-declarations true)")
		s.send("(set-logic ALL)")
	}
}

func (s *Solver) Close() {
	if s.cmd != nil {
		s.in.Close()
		done := make(chan struct{})
		go func() { s.cmd.Wait(); close(done) }()
		select {
		case <-done:
		case <-time.After(2 * time.Second):
			s.cmd.Process.Kill()
		}
		s.cmd = nil
	}
}

func (s *Solver) send(line string) {
	if s.Log != nil {
		fmt.Fprintln(s.Log, line)
	}
	io.WriteString(s.in, line)
	io.WriteString(s.in, "\n")
}

// define emits declarations/definitions for every subterm of t not yet known to the process.
func (s *Solver) define(t *Term) {
	if t.Op == OpConst || s.defined[t.ID] {
		return
	}
	// iterative post-order
	type fr struct {
		t *Term
		i int
	}
	stack := []fr{{t, 0}}
	for len(stack) > 0 {
		top := &stack[len(stack)-1]
		if top.t.Op == OpConst || s.defined[top.t.ID] {
			stack = stack[:len(stack)-1]
			continue
		}
		if top.i < len(top.t.Args) {
			a := top.t.Args[top.i]
			top.i++
			if a.Op != OpConst && !s.defined[a.ID] {
				stack = append(stack, fr{a, 0})
			}
			continue
		}
		x := top.t
		stack = stack[:len(stack)-1]
		s.defined[x.ID] = true
		switch x.Op {
		case OpVar:
			s.send(fmt.Sprintf("(declare-const |%s| %s)", x.Name, x.Sort))
		case OpUF:
			if !s.ufDecl[x.Name] {
				s.ufDecl[x.Name] = true
				var sb strings.Builder
				for _, a := range x.Args {
					sb.WriteString(a.Sort.String() + " ")
				}
				s.send(fmt.Sprintf("(declare-fun |%s| (%s) %s)", x.Name, sb.String(), x.Sort))
			}
			s.send(fmt.Sprintf("(define-fun t%d () %s %s)", x.ID, x.Sort, x.body()))
		default:
			s.send(fmt.Sprintf("(define-fun t%d () %s %s)", x.ID, x.Sort, x.body()))
		}
	}
}

// Check decides satisfiability of pc ∧ extra. The path condition is kept asserted in the
// solver, one push level per constraint, so that consecutive queries (and consecutive
// sibling paths) only send what changed; declarations are global.
func (s *Solver) Check(pc []*Term, extra []*Term, wantModel bool) (Result, Model) {
	t0 := time.Now()
	defer func() { s.SolverNs += time.Since(t0).Nanoseconds() }()
	for _, c := range pc {
		s.define(c)
	}
	for _, c := range extra {
		s.define(c)
	}
	s.send("(push 1)")
	for _, c := range pc {
		s.send("(assert " + c.ref() + ")")
	}
	for _, c := range extra {
		s.send("(assert " + c.ref() + ")")
	}
	s.send(s.CheckCmd)
	res := s.readResult()
	var m Model
	if res == Sat && wantModel {
		all := make([]*Term, 0, len(pc)+len(extra))
		all = append(all, pc...)
		all = append(all, extra...)
		m = s.getModel(all)
	}
	if !s.restarted {
		s.send("(pop 1)")
	}
	s.restarted = false
	s.Queries[res]++
	return res, m
}

func (s *Solver) readLine(deadline time.Duration) (string, bool) {
	type rl struct {
		s   string
		err error
	}
	ch := make(chan rl, 1)
	go func() {
		l, err := s.out.ReadString('\n')
		ch <- rl{l, err}
	}()
	select {
	case r := <-ch:
		if r.err != nil && r.s == "" {
			return "", false
		}
		return strings.TrimSpace(r.s), true
	case <-time.After(deadline):
		return "", false
	}
}

func (s *Solver) readResult() Result {
	dl := time.Duration(s.TimeoutMs)*time.Millisecond*2 + 5*time.Second
	for {
		l, ok := s.readLine(dl)
		if !ok {
			// hung or died: restart
			s.Errors = append(s.Errors, "solver timeout/hang: restarted")
			s.cmd.Process.Kill()
			s.cmd.Wait()
			s.start()
			s.restarted = true
			return Unknown
		}
		switch l {
		case "sat":
			return Sat
		case "unsat":
			return Unsat
		case "unknown", "timeout":
			return Unknown
		case "":
			continue
		}
		if strings.HasPrefix(l, "(error") {
			s.Errors = append(s.Errors, l)
			// an error line means the query is inconclusive; keep reading for the verdict
			continue
		}
		if strings.HasPrefix(l, "unsupported") || strings.HasPrefix(l, ";") {
			continue
		}
		s.Errors = append(s.Errors, "unexpected solver output: "+l)
	}
}

func collectVars(cs []*Term) []*Term {
	seen := map[int]bool{}
	var vars []*Term
	var stack []*Term
	stack = append(stack, cs...)
	for len(stack) > 0 {
		t := stack[len(stack)-1]
		stack = stack[:len(stack)-1]
		if seen[t.ID] {
			continue
		}
		seen[t.ID] = true
		if t.Op == OpVar {
			vars = append(vars, t)
		}
		stack = append(stack, t.Args...)
	}
	return vars
}

func (s *Solver) getModel(cs []*Term) Model {
	vars := collectVars(cs)
	m := Model{}
	if len(vars) == 0 {
		return m
	}
	var sb strings.Builder
	sb.WriteString("(get-value (")
	for _, v := range vars {
		sb.WriteString(v.ref() + " ")
	}
	sb.WriteString("))")
	s.send(sb.String())
	// read balanced s-expression
	var buf strings.Builder
	depth := 0
	started := false
	for {
		l, ok := s.readLine(30 * time.Second)
		if !ok {
			s.Errors = append(s.Errors, "get-value: no answer")
			return m
		}
		if strings.HasPrefix(l, "(error") {
			s.Errors = append(s.Errors, l)
			return m
		}
		buf.WriteString(l + " ")
		inBar := false
		for _, ch := range l {
			if ch == '|' {
				inBar = !inBar
			}
			if inBar {
				continue
			}
			if ch == '(' {
				depth++
				started = true
			} else if ch == ')' {
				depth--
			}
		}
		if started && depth == 0 {
			break
		}
	}
	parseValues(buf.String(), m)
	return m
}

// parseValues parses ((|name| #x..) (|n2| true) ...)
func parseValues(s string, m Model) {
	i := 0
	n := len(s)
	for i < n {
		// find "(|"
		j := strings.Index(s[i:], "(|")
		if j < 0 {
			return
		}
		i += j + 2
		k := strings.IndexByte(s[i:], '|')
		if k < 0 {
			return
		}
		name := s[i : i+k]
		i += k + 1
		for i < n && s[i] == ' ' {
			i++
		}
		e := i
		for e < n && s[e] != ')' && s[e] != ' ' {
			e++
		}
		tok := s[i:e]
		i = e
		switch {
		case tok == "true":
			m[name] = 1
		case tok == "false":
			m[name] = 0
		case strings.HasPrefix(tok, "#x"):
			v, _ := strconv.ParseUint(tok[2:], 16, 64)
			m[name] = v
		case strings.HasPrefix(tok, "#b"):
			v, _ := strconv.ParseUint(tok[2:], 2, 64)
			m[name] = v
		case strings.HasPrefix(tok, "(_"):
			// (_ bv123 8)
			rest := s[i:]
			var val uint64
			fmt.Sscanf(strings.TrimSpace(rest), "bv%d", &val)
			m[name] = val
		}
	}
}
