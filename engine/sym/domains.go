package sym

// Byte-domain reasoning: conditions that depend on exactly one variable of at most 8
// bits are decided exactly by enumerating that variable's current domain (a 256-bit
// set maintained from the single-variable constraints of the path condition). This is
// sound (the domain over-approximates the values allowed by the whole path condition)
// and, while the variable does not occur in any multi-variable constraint, complete —
// so byte-classifying code (parsers, matchers) needs no solver call at all. Everything
// else goes to the SMT solver.

type bitset [4]uint64

func (b *bitset) has(i uint64) bool { return b[i>>6]&(1<<(i&63)) != 0 }
func (b *bitset) set(i uint64)      { b[i>>6] |= 1 << (i & 63) }
func (b bitset) and(o bitset) bitset {
	return bitset{b[0] & o[0], b[1] & o[1], b[2] & o[2], b[3] & o[3]}
}
func (b bitset) andNot(o bitset) bitset {
	return bitset{b[0] &^ o[0], b[1] &^ o[1], b[2] &^ o[2], b[3] &^ o[3]}
}
func (b bitset) empty() bool { return b[0]|b[1]|b[2]|b[3] == 0 }
func (b bitset) first() uint64 {
	for i := uint64(0); i < 256; i++ {
		if b.has(i) {
			return i
		}
	}
	return 0
}
func fullSet(w int) bitset {
	var b bitset
	for i := uint64(0); i < uint64(1)<<uint(w); i++ {
		b.set(i)
	}
	return b
}

type varInfo struct {
	dom       bitset
	entangled bool
}

// termVars returns the distinct variables of t if there are at most 2 (else nil,false).
func (tb *TermTable) termVars(t *Term) ([]*Term, bool) {
	if r, ok := tb.varsCache[t.ID]; ok {
		return r.vars, r.ok
	}
	var vars []*Term
	ok := true
	seen := map[int]bool{}
	stack := []*Term{t}
	for len(stack) > 0 && ok {
		x := stack[len(stack)-1]
		stack = stack[:len(stack)-1]
		if seen[x.ID] {
			continue
		}
		seen[x.ID] = true
		switch x.Op {
		case OpVar:
			vars = append(vars, x)
			if len(vars) > 2 {
				ok = false
			}
		case OpUF:
			ok = false
		}
		stack = append(stack, x.Args...)
		if len(seen) > 4000 {
			ok = false
		}
	}
	if !ok {
		vars = nil
	}
	tb.varsCache[t.ID] = varsEntry{vars, ok}
	return vars, ok
}

type varsEntry struct {
	vars []*Term
	ok   bool
}

// truthSet returns the set of values of the single small variable v for which c holds.
func (tb *TermTable) truthSet(c *Term, v *Term) bitset {
	if r, ok := tb.truthCache[c.ID]; ok {
		return r
	}
	var b bitset
	n := uint64(1) << uint(v.Sort.W)
	md := Model{}
	for x := uint64(0); x < n; x++ {
		md[v.Name] = x
		if NewEval(md).Eval(c) == 1 {
			b.set(x)
		}
	}
	tb.truthCache[c.ID] = b
	return b
}

func (m *Machine) vinfoOf(v *Term) *varInfo {
	if vi, ok := m.vinfo[v.ID]; ok {
		return vi
	}
	vi := &varInfo{dom: fullSet(v.Sort.W)}
	m.vinfo[v.ID] = vi
	return vi
}

// singleSmallVar reports the variable when c depends on exactly one variable of <= 8 bits.
func (m *Machine) singleSmallVar(c *Term) *Term {
	vs, ok := m.tb.termVars(c)
	if !ok || len(vs) != 1 || vs[0].Sort.Bool || vs[0].Sort.W > 8 {
		return nil
	}
	return vs[0]
}

// noteConstraint updates domains/entanglement for a constraint added to the pc.
func (m *Machine) noteConstraint(c *Term) {
	vs, ok := m.tb.termVars(c)
	if ok && len(vs) == 1 && !vs[0].Sort.Bool && vs[0].Sort.W <= 8 {
		vi := m.vinfoOf(vs[0])
		vi.dom = vi.dom.and(m.tb.truthSet(c, vs[0]))
		return
	}
	// multi-variable (or unknown) constraint: every small variable in it becomes entangled
	m.entangleAll(c)
}

func (m *Machine) entangleAll(c *Term) {
	seen := map[int]bool{}
	stack := []*Term{c}
	for len(stack) > 0 {
		x := stack[len(stack)-1]
		stack = stack[:len(stack)-1]
		if seen[x.ID] {
			continue
		}
		seen[x.ID] = true
		if x.Op == OpVar && !x.Sort.Bool && x.Sort.W <= 8 {
			m.vinfoOf(x).entangled = true
		}
		stack = append(stack, x.Args...)
	}
}

// domDecide classifies c over the domain of its single variable:
// 1 = always true, 0 = always false, 2 = both possible (exact iff !entangled), -1 = not applicable.
func (m *Machine) domDecide(c *Term) (res int, v *Term, vi *varInfo, T, F bitset) {
	v = m.singleSmallVar(c)
	if v == nil {
		return -1, nil, nil, T, F
	}
	vi = m.vinfoOf(v)
	ts := m.tb.truthSet(c, v)
	T = vi.dom.and(ts)
	F = vi.dom.andNot(ts)
	switch {
	case F.empty() && T.empty():
		return -1, v, vi, T, F // empty domain: let the solver report infeasibility
	case F.empty():
		return 1, v, vi, T, F
	case T.empty():
		return 0, v, vi, T, F
	}
	return 2, v, vi, T, F
}

// patchedModel returns a copy of the current model with v set to a value of set
// (keeping the current value when it already lies in the set).
func (m *Machine) patchedModel(v *Term, set bitset) Model {
	if m.model == nil {
		return nil
	}
	cur := m.model[v.Name] & mask(v.Sort.W)
	md := make(Model, len(m.model)+1)
	for k, x := range m.model {
		md[k] = x
	}
	if !set.has(cur) {
		md[v.Name] = set.first()
	}
	return md
}
