package sym

import (
	"go/token"
	"go/types"

	"golang.org/x/tools/go/ssa"
)

type lockKey struct{ p *Value }
type condKey struct{ p *Value }
type smKey struct{ p *Value }
type poolKey struct{ p *Value }
type wgKey struct{ p *Value }
type avKey struct{ p *Value }

type lockState struct {
	w     bool
	r     int
	owner int
}

type condState struct {
	waiters []*thread
}

func (m *Machine) lockState(p *Value) *lockState {
	k := lockKey{p}
	if s, ok := m.side[k]; ok {
		return s.(*lockState)
	}
	s := &lockState{}
	m.side[k] = s
	return s
}

func (m *Machine) yield(why string) {
	if m.P.ExplicitYield && why != "symapi.Yield" && why != "field access" && why != "Mutex.Unlock" {
		// explicit mode: context switches only at symapi.Yield (placed in the fakes at the
		// operations whose order is observable), configured fields, spawns, blocking, and
		// after a mutex is released (so that two critical sections of one thread can be
		// separated by another thread's)
		return
	}
	if m.threads != nil {
		m.threads.yield(m, why)
	}
}

// waitUntil blocks the current thread until cond() holds.
func (m *Machine) waitUntil(cond func() bool, why string) {
	for !cond() {
		if m.threads == nil {
			m.violation("deadlock", "deadlock", "sequential execution blocks forever in "+why, m.model)
			panic(pathEnd{"violation"})
		}
		m.threads.blockOn(m, cond, why)
	}
}

func (m *Machine) tid() int {
	if m.curThread != nil {
		return m.curThread.id
	}
	return 0
}

var anyType = types.NewInterfaceType(nil, nil)

func registerSyncIntrinsics(P *Program) {
	in := P.intrinsics

	in["(*sync.Mutex).Lock"] = func(fr *frame, args []Value) Value {
		m := fr.m
		p := m.derefPtr(args[0])
		m.yield("Mutex.Lock")
		s := m.lockState(p)
		m.waitUntil(func() bool { return !s.w && s.r == 0 }, "Mutex.Lock")
		s.w = true
		s.owner = m.tid()
		return nil
	}
	in["(*sync.Mutex).TryLock"] = func(fr *frame, args []Value) Value {
		m := fr.m
		p := m.derefPtr(args[0])
		m.yield("Mutex.TryLock")
		s := m.lockState(p)
		if s.w || s.r > 0 {
			return m.tb.False()
		}
		s.w = true
		return m.tb.True()
	}
	in["(*sync.Mutex).Unlock"] = func(fr *frame, args []Value) Value {
		m := fr.m
		p := m.derefPtr(args[0])
		s := m.lockState(p)
		if !s.w {
			m.fatal("sync: unlock of unlocked mutex")
		}
		s.w = false
		m.yield("Mutex.Unlock")
		return nil
	}
	in["(*sync.RWMutex).Lock"] = in["(*sync.Mutex).Lock"]
	in["(*sync.RWMutex).Unlock"] = in["(*sync.Mutex).Unlock"]
	in["(*sync.RWMutex).TryLock"] = in["(*sync.Mutex).TryLock"]
	in["(*sync.RWMutex).RLock"] = func(fr *frame, args []Value) Value {
		m := fr.m
		p := m.derefPtr(args[0])
		m.yield("RWMutex.RLock")
		s := m.lockState(p)
		m.waitUntil(func() bool { return !s.w }, "RWMutex.RLock")
		s.r++
		return nil
	}
	in["(*sync.RWMutex).RUnlock"] = func(fr *frame, args []Value) Value {
		m := fr.m
		p := m.derefPtr(args[0])
		s := m.lockState(p)
		if s.r <= 0 {
			m.fatal("sync: RUnlock of unlocked RWMutex")
		}
		s.r--
		m.yield("RWMutex.RUnlock")
		return nil
	}

	// ---- Cond ----
	condOf := func(m *Machine, p *Value) *condState {
		k := condKey{p}
		if s, ok := m.side[k]; ok {
			return s.(*condState)
		}
		s := &condState{}
		m.side[k] = s
		return s
	}
	callLocker := func(fr *frame, cp *Value, meth string) {
		m := fr.m
		st := (*cp).(Struct)
		// Cond{noCopy, L, notify, checker}
		l := st[1].(Iface)
		if l.T == nil {
			m.runtimePanic("nil Locker in Cond")
		}
		f := m.P.Prog.LookupMethod(l.T, nil, meth)
		if f == nil {
			m.unsupported("Locker without %s", meth)
		}
		m.call(fr, token.NoPos, f, []Value{l.V})
	}
	in["(*sync.Cond).Wait"] = func(fr *frame, args []Value) Value {
		m := fr.m
		p := m.derefPtr(args[0])
		cs := condOf(m, p)
		if m.threads == nil {
			m.notes = append(m.notes, "blocked in Cond.Wait (sequential)")
			panic(pathEnd{"blocked"})
		}
		me := m.curThread
		cs.waiters = append(cs.waiters, me)
		me.condWait = true
		callLocker(fr, p, "Unlock")
		m.waitUntil(func() bool { return !me.condWait }, "Cond.Wait")
		callLocker(fr, p, "Lock")
		return nil
	}
	in["(*sync.Cond).Signal"] = func(fr *frame, args []Value) Value {
		m := fr.m
		p := m.derefPtr(args[0])
		m.yield("Cond.Signal")
		cs := condOf(m, p)
		if len(cs.waiters) > 0 {
			cs.waiters[0].condWait = false
			cs.waiters = cs.waiters[1:]
		}
		return nil
	}
	in["(*sync.Cond).Broadcast"] = func(fr *frame, args []Value) Value {
		m := fr.m
		p := m.derefPtr(args[0])
		m.yield("Cond.Broadcast")
		cs := condOf(m, p)
		for _, w := range cs.waiters {
			w.condWait = false
		}
		cs.waiters = nil
		return nil
	}

	// ---- sync.Map ----
	smOf := func(m *Machine, p *Value) *Map {
		k := smKey{p}
		if s, ok := m.side[k]; ok {
			return s.(*Map)
		}
		s := &Map{KT: anyType}
		m.side[k] = s
		return s
	}
	in["(*sync.Map).Load"] = func(fr *frame, args []Value) Value {
		m := fr.m
		m.yield("sync.Map.Load")
		mp := smOf(m, m.derefPtr(args[0]))
		if i := m.mapFind(mp, args[1]); i >= 0 {
			return Tuple{mp.Vals[i], m.tb.True()}
		}
		return Tuple{Iface{}, m.tb.False()}
	}
	in["(*sync.Map).Store"] = func(fr *frame, args []Value) Value {
		m := fr.m
		m.yield("sync.Map.Store")
		mp := smOf(m, m.derefPtr(args[0]))
		m.mapInsert(mp, args[1], args[2])
		return nil
	}
	in["(*sync.Map).LoadOrStore"] = func(fr *frame, args []Value) Value {
		m := fr.m
		m.yield("sync.Map.LoadOrStore")
		mp := smOf(m, m.derefPtr(args[0]))
		if i := m.mapFind(mp, args[1]); i >= 0 {
			return Tuple{mp.Vals[i], m.tb.True()}
		}
		m.mapInsert(mp, args[1], args[2])
		return Tuple{args[2], m.tb.False()}
	}
	in["(*sync.Map).LoadAndDelete"] = func(fr *frame, args []Value) Value {
		m := fr.m
		m.yield("sync.Map.LoadAndDelete")
		mp := smOf(m, m.derefPtr(args[0]))
		if i := m.mapFind(mp, args[1]); i >= 0 {
			v := mp.Vals[i]
			m.mapDelete(mp, args[1])
			return Tuple{v, m.tb.True()}
		}
		return Tuple{Iface{}, m.tb.False()}
	}
	in["(*sync.Map).Delete"] = func(fr *frame, args []Value) Value {
		m := fr.m
		m.yield("sync.Map.Delete")
		mp := smOf(m, m.derefPtr(args[0]))
		m.mapDelete(mp, args[1])
		return nil
	}
	in["(*sync.Map).Range"] = func(fr *frame, args []Value) Value {
		m := fr.m
		m.yield("sync.Map.Range")
		mp := smOf(m, m.derefPtr(args[0]))
		it := m.rangeIter(mp, nil).(*mapIter)
		for {
			t := it.next(m)
			if !t[0].(*Term).IsTrue() {
				break
			}
			r := m.call(fr, token.NoPos, args[1], []Value{t[1], t[2]})
			if !m.branch(r.(*Term)) {
				break
			}
			m.yield("sync.Map.Range.next")
		}
		return nil
	}

	// ---- sync.Pool ----
	in["(*sync.Pool).Get"] = func(fr *frame, args []Value) Value {
		m := fr.m
		p := m.derefPtr(args[0])
		m.yield("Pool.Get")
		k := poolKey{p}
		items, _ := m.side[k].([]Value)
		if len(items) > 0 {
			n := len(items)
			pick := n - 1
			if m.P.PoolSymbolic {
				pick = m.choose(n, 'n')
			}
			v := items[pick]
			items = append(append([]Value{}, items[:pick]...), items[pick+1:]...)
			m.side[k] = items
			return v
		}
		st := (*p).(Struct)
		// the New field is the last field of sync.Pool
		nf := st[len(st)-1]
		switch f := nf.(type) {
		case *ssa.Function:
			if f == nil {
				return Iface{}
			}
		case *Closure:
			if f == nil {
				return Iface{}
			}
		}
		return m.call(fr, token.NoPos, nf, nil)
	}
	in["(*sync.Pool).Put"] = func(fr *frame, args []Value) Value {
		m := fr.m
		p := m.derefPtr(args[0])
		m.yield("Pool.Put")
		k := poolKey{p}
		items, _ := m.side[k].([]Value)
		m.side[k] = append(items, args[1])
		return nil
	}

	// ---- WaitGroup ----
	in["(*sync.WaitGroup).Add"] = func(fr *frame, args []Value) Value {
		m := fr.m
		p := m.derefPtr(args[0])
		k := wgKey{p}
		n, _ := m.side[k].(int)
		n += m.concInt(args[1], "WaitGroup.Add delta")
		if n < 0 {
			m.fatal("sync: negative WaitGroup counter")
		}
		m.side[k] = n
		m.yield("WaitGroup.Add")
		return nil
	}
	in["(*sync.WaitGroup).Done"] = func(fr *frame, args []Value) Value {
		m := fr.m
		p := m.derefPtr(args[0])
		k := wgKey{p}
		n, _ := m.side[k].(int)
		n--
		if n < 0 {
			m.fatal("sync: negative WaitGroup counter")
		}
		m.side[k] = n
		m.yield("WaitGroup.Done")
		return nil
	}
	in["(*sync.WaitGroup).Wait"] = func(fr *frame, args []Value) Value {
		m := fr.m
		p := m.derefPtr(args[0])
		k := wgKey{p}
		m.yield("WaitGroup.Wait")
		m.waitUntil(func() bool { n, _ := m.side[k].(int); return n == 0 }, "WaitGroup.Wait")
		return nil
	}

	// ---- sync/atomic ----
	loadF := func(fr *frame, args []Value) Value {
		m := fr.m
		m.yield("atomic.Load")
		return load(m.derefPtr(args[0]))
	}
	storeF := func(fr *frame, args []Value) Value {
		m := fr.m
		m.yield("atomic.Store")
		store(m.derefPtr(args[0]), args[1])
		return nil
	}
	add := func(fr *frame, args []Value) Value {
		m := fr.m
		m.yield("atomic.Add")
		p := m.derefPtr(args[0])
		nv := m.tb.Bin(OpAdd, (*p).(*Term), args[1].(*Term))
		*p = nv
		return nv
	}
	swap := func(fr *frame, args []Value) Value {
		m := fr.m
		m.yield("atomic.Swap")
		p := m.derefPtr(args[0])
		old := load(p)
		store(p, args[1])
		return old
	}
	cas := func(fr *frame, args []Value) Value {
		m := fr.m
		m.yield("atomic.CAS")
		p := m.derefPtr(args[0])
		var eq *Term
		switch cur := (*p).(type) {
		case *Term:
			eq = m.tb.Eq(cur, args[1].(*Term))
		case UPtr:
			eq = m.tb.Bool(cur.P == args[1].(UPtr).P)
		default:
			m.unsupported("CAS on %T", cur)
		}
		if m.branch(eq) {
			store(p, args[2])
			return m.tb.True()
		}
		return m.tb.False()
	}
	for _, t := range []string{"Int32", "Int64", "Uint32", "Uint64", "Uintptr", "Pointer"} {
		in["sync/atomic.Load"+t] = loadF
		in["sync/atomic.Store"+t] = storeF
		in["sync/atomic.Swap"+t] = swap
		in["sync/atomic.CompareAndSwap"+t] = cas
		if t != "Pointer" {
			in["sync/atomic.Add"+t] = add
		}
	}
	in["internal/runtime/atomic.Load"] = loadF
	in["(*sync/atomic.Value).Load"] = func(fr *frame, args []Value) Value {
		m := fr.m
		m.yield("atomic.Value.Load")
		if v, ok := m.side[avKey{m.derefPtr(args[0])}]; ok {
			return v.(Value)
		}
		return Iface{}
	}
	in["(*sync/atomic.Value).Store"] = func(fr *frame, args []Value) Value {
		m := fr.m
		m.yield("atomic.Value.Store")
		m.side[avKey{m.derefPtr(args[0])}] = args[1]
		return nil
	}
}

// fatal models runtime fatal errors (not recoverable): always a violation.
func (m *Machine) fatal(msg string) {
	m.ensureModelSafe()
	m.violation("panic", "fatal", "fatal error: "+msg, m.model)
	panic(pathEnd{"violation"})
}
