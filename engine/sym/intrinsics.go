package sym

import (
	"crypto/md5"
	"fmt"
	"go/types"
	"math"
	"strings"
)

// newEnvVar creates a variable for an environment result (clock, opaque stub): it is
// not part of the harness tape (the native replay runs the real environment).
func (m *Machine) newEnvVar(name string, s Sort) *Term { return m.newVar("env."+name, s) }

func (m *Machine) newVar(name string, s Sort) *Term {
	k := m.varCount[name]
	m.varCount[name] = k + 1
	vn := name
	if k > 0 {
		vn = fmt.Sprintf("%s#%d", name, k)
	}
	return m.tb.Var(vn, s)
}

func (m *Machine) concStr(v Value, what string) string {
	s, ok := v.(Str).Concrete()
	if !ok {
		m.unsupported("%s must be a concrete string", what)
	}
	return s
}

func (m *Machine) concInt(v Value, what string) int {
	t := v.(*Term)
	if !t.IsConst() {
		m.unsupported("%s must be concrete", what)
	}
	return int(sext(t.Val, t.Sort.W))
}

func registerIntrinsics(P *Program) {
	in := P.intrinsics
	sa := SymapiPath + "."

	mkInt := func(w int) Intrinsic {
		return func(fr *frame, args []Value) Value {
			m := fr.m
			name := m.concStr(args[0], "symapi name")
			v := m.newVar(name, BV(w))
			m.tape = append(m.tape, TapeEntry{Name: name, Kind: "int", T: v, W: w})
			return v
		}
	}
	for n, w := range map[string]int{"Int64": 64, "Int": 64, "Int32": 32, "Int16": 16, "Int8": 8,
		"Uint64": 64, "Uint": 64, "Uint32": 32, "Uint16": 16, "Uint8": 8, "Byte": 8} {
		in[sa+n] = mkInt(w)
	}
	in[sa+"Bool"] = func(fr *frame, args []Value) Value {
		m := fr.m
		name := m.concStr(args[0], "symapi name")
		v := m.newVar(name, BV(1))
		m.tape = append(m.tape, TapeEntry{Name: name, Kind: "bool", T: v, W: 1})
		return m.tb.Eq(v, m.tb.Const(1, 1))
	}
	in[sa+"IntRange"] = func(fr *frame, args []Value) Value {
		m := fr.m
		name := m.concStr(args[0], "symapi name")
		lo, hi := m.concInt(args[1], "IntRange lo"), m.concInt(args[2], "IntRange hi")
		if hi < lo {
			panic(pathEnd{"assume-false"})
		}
		c := m.choose(hi-lo+1, 'n')
		m.tape = append(m.tape, TapeEntry{Name: name, Kind: "choose", Val: uint64(lo + c)})
		return m.tb.Const(64, uint64(lo+c))
	}
	in[sa+"Choose"] = func(fr *frame, args []Value) Value {
		m := fr.m
		name := m.concStr(args[0], "symapi name")
		n := m.concInt(args[1], "Choose n")
		c := m.choose(n, 'n')
		m.tape = append(m.tape, TapeEntry{Name: name, Kind: "choose", Val: uint64(c)})
		return m.tb.Const(64, uint64(c))
	}
	in[sa+"Bytes"] = func(fr *frame, args []Value) Value {
		m := fr.m
		name := m.concStr(args[0], "symapi name")
		n := m.concInt(args[1], "Bytes n")
		out := make([]Value, n)
		for i := 0; i < n; i++ {
			en := fmt.Sprintf("%s[%d]", name, i)
			v := m.newVar(en, BV(8))
			m.tape = append(m.tape, TapeEntry{Name: en, Kind: "int", T: v, W: 8})
			out[i] = v
		}
		return out
	}
	in[sa+"String"] = func(fr *frame, args []Value) Value {
		m := fr.m
		name := m.concStr(args[0], "symapi name")
		n := m.concInt(args[1], "String n")
		bs := make([]*Term, n)
		for i := 0; i < n; i++ {
			en := fmt.Sprintf("%s[%d]", name, i)
			v := m.newVar(en, BV(8))
			m.tape = append(m.tape, TapeEntry{Name: en, Kind: "int", T: v, W: 8})
			bs[i] = v
		}
		if n == 0 {
			return Str{}
		}
		return Str{B: bs}
	}
	in[sa+"OneOf"] = func(fr *frame, args []Value) Value {
		m := fr.m
		b := args[0].(*Term)
		set := m.concStr(args[1], "OneOf set")
		r := m.tb.False()
		for i := 0; i < len(set); i++ {
			r = m.tb.Or(r, m.tb.Eq(b, m.tb.Const(8, uint64(set[i]))))
		}
		return r
	}
	in[sa+"NoLargeAlloc"] = func(fr *frame, args []Value) Value {
		m := fr.m
		save := m.allocLimit
		m.allocLimit = m.concInt(args[0], "alloc limit")
		defer func() { m.allocLimit = save }()
		m.call(fr, fr.m.curPos, args[1], nil)
		return nil
	}
	in[sa+"Param"] = func(fr *frame, args []Value) Value {
		m := fr.m
		name := m.concStr(args[0], "param name")
		def := m.concInt(args[1], "param default")
		if v, ok := m.params[name]; ok {
			return m.tb.Const(64, uint64(v))
		}
		return m.tb.Const(64, uint64(def))
	}
	in[sa+"Assume"] = func(fr *frame, args []Value) Value {
		fr.m.assume(args[0].(*Term))
		return nil
	}
	in[sa+"Assert"] = func(fr *frame, args []Value) Value {
		m := fr.m
		m.assert(args[0].(*Term), m.concStr(args[1], "assert label"))
		return nil
	}
	// Possible(c, label): an existential obligation - c must be satisfiable here (together with
	// the path condition). Used for "X is not determined by what the adversary knows": the
	// violation is that NO value of the environment's free choices makes c true.
	in[sa+"Possible"] = func(fr *frame, args []Value) Value {
		m := fr.m
		m.possible(args[0].(*Term), m.concStr(args[1], "possible label"))
		return nil
	}
	// crypto/rand: every byte read is a fresh unconstrained symbol of the environment (not on the tape)
	in["crypto/rand.Read"] = func(fr *frame, args []Value) Value {
		m := fr.m
		b := args[0].([]Value)
		k, _ := m.side["rand.n"].(int)
		for i := range b {
			b[i] = m.newVar(fmt.Sprintf("rand_%d", k), BV(8))
			k++
		}
		m.side["rand.n"] = k
		return Tuple{m.tb.Const(64, uint64(len(b))), Iface{}}
	}
	in[sa+"Reach"] = func(fr *frame, args []Value) Value {
		m := fr.m
		m.reached[m.concStr(args[0], "reach label")] = true
		return nil
	}
	in[sa+"Sched"] = func(fr *frame, args []Value) Value { return []Value(nil) }
	in[sa+"Go"] = func(fr *frame, args []Value) Value {
		fr.m.spawn(args[0], nil, fr.m.curPos)
		return nil
	}
	in[sa+"Yield"] = func(fr *frame, args []Value) Value {
		fr.m.yield("symapi.Yield")
		return nil
	}
	in[sa+"Deterministic"] = func(fr *frame, args []Value) Value {
		m := fr.m
		if m.threads != nil {
			m.threads.settling = args[0].(*Term).IsTrue()
		}
		return nil
	}
	in[sa+"AdvanceClock"] = func(fr *frame, args []Value) Value {
		m := fr.m
		n, _ := m.side["clock.concrete"].(uint64)
		m.side["clock.concrete"] = n + uint64(m.concInt(args[0], "AdvanceClock seconds"))*1_000_000_000
		return nil
	}
	in[sa+"Settle"] = func(fr *frame, args []Value) Value {
		m := fr.m
		if m.threads == nil {
			return nil
		}
		save := m.threads.settling
		m.threads.settling = true
		m.threads.quiesceWait(m)
		m.threads.settling = save
		return nil
	}
	in[sa+"Quiesce"] = func(fr *frame, args []Value) Value {
		m := fr.m
		if m.threads == nil {
			return m.tb.Const(64, uint64(len(m.spawned)))
		}
		return m.tb.Const(64, uint64(m.threads.quiesceWait(m)))
	}

	// ---- internal/bytealg (assembly kernels) ----
	in["internal/bytealg.IndexByte"] = func(fr *frame, args []Value) Value {
		return fr.m.indexByte(sliceTerms(args[0].([]Value)), args[1].(*Term))
	}
	in["internal/bytealg.IndexByteString"] = func(fr *frame, args []Value) Value {
		return fr.m.indexByte(fr.m.strBytes(args[0].(Str)), args[1].(*Term))
	}
	in["internal/bytealg.Equal"] = func(fr *frame, args []Value) Value {
		m := fr.m
		a, b := sliceTerms(args[0].([]Value)), sliceTerms(args[1].([]Value))
		return m.strEq(Str{B: nz(a)}, Str{B: nz(b)})
	}
	in["bytes.Equal"] = in["internal/bytealg.Equal"]
	in["internal/bytealg.Count"] = func(fr *frame, args []Value) Value {
		return fr.m.countByte(sliceTerms(args[0].([]Value)), args[1].(*Term))
	}
	in["internal/bytealg.CountString"] = func(fr *frame, args []Value) Value {
		return fr.m.countByte(fr.m.strBytes(args[0].(Str)), args[1].(*Term))
	}
	in["internal/bytealg.Compare"] = func(fr *frame, args []Value) Value {
		m := fr.m
		a, b := Str{B: nz(sliceTerms(args[0].([]Value)))}, Str{B: nz(sliceTerms(args[1].([]Value)))}
		lt := m.strLess(a, b, false)
		eq := m.strEq(a, b)
		return m.tb.Ite(lt, m.tb.Const(64, ^uint64(0)), m.tb.Ite(eq, m.tb.Const(64, 0), m.tb.Const(64, 1)))
	}
	in["internal/bytealg.IndexString"] = func(fr *frame, args []Value) Value {
		return fr.m.indexSub(fr.m.strBytes(args[0].(Str)), fr.m.strBytes(args[1].(Str)))
	}
	in["internal/bytealg.Index"] = func(fr *frame, args []Value) Value {
		return fr.m.indexSub(sliceTerms(args[0].([]Value)), sliceTerms(args[1].([]Value)))
	}
	in["internal/bytealg.MakeNoZero"] = func(fr *frame, args []Value) Value {
		m := fr.m
		m.checkAllocLimit(args[0].(*Term), true, 1)
		n := m.concretizeAlloc(args[0].(*Term), true, "MakeNoZero")
		out := make([]Value, n)
		z := m.tb.Const(8, 0)
		for i := range out {
			out[i] = z
		}
		return out
	}
	in["internal/stringslite.Index"] = func(fr *frame, args []Value) Value {
		return fr.m.indexSub(fr.m.strBytes(args[0].(Str)), fr.m.strBytes(args[1].(Str)))
	}
	in["strings.Index"] = in["internal/stringslite.Index"]
	in["internal/stringslite.IndexByte"] = in["internal/bytealg.IndexByteString"]
	in["strings.IndexByte"] = in["internal/bytealg.IndexByteString"]
	in["bytes.IndexByte"] = in["internal/bytealg.IndexByte"]

	// ---- strings helpers modelled byte-wise (no forking) ----
	in["strings.ToLower"] = func(fr *frame, args []Value) Value {
		m := fr.m
		s := args[0].(Str)
		if c, ok := s.Concrete(); ok {
			return Str{S: strings.ToLower(c)}
		}
		out := make([]*Term, len(s.B))
		for i, b := range s.B {
			if b.IsConst() {
				out[i] = m.tb.Const(8, uint64(strings.ToLower(string(rune(b.Val)))[0]))
				if b.Val >= 0x80 {
					m.unsupported("strings.ToLower on non-ASCII")
				}
				continue
			}
			m.assumeASCII(b)
			up := m.tb.And(m.tb.Cmp(OpULe, m.tb.Const(8, 'A'), b), m.tb.Cmp(OpULe, b, m.tb.Const(8, 'Z')))
			out[i] = m.tb.Ite(up, m.tb.Bin(OpAdd, b, m.tb.Const(8, 32)), b)
		}
		return m.mkStr(out)
	}
	in["strings.ToUpper"] = func(fr *frame, args []Value) Value {
		m := fr.m
		s := args[0].(Str)
		if c, ok := s.Concrete(); ok {
			return Str{S: strings.ToUpper(c)}
		}
		out := make([]*Term, len(s.B))
		for i, b := range s.B {
			if b.IsConst() {
				if b.Val >= 0x80 {
					m.unsupported("strings.ToUpper on non-ASCII")
				}
				out[i] = m.tb.Const(8, uint64(strings.ToUpper(string(rune(b.Val)))[0]))
				continue
			}
			m.assumeASCII(b)
			lo := m.tb.And(m.tb.Cmp(OpULe, m.tb.Const(8, 'a'), b), m.tb.Cmp(OpULe, b, m.tb.Const(8, 'z')))
			out[i] = m.tb.Ite(lo, m.tb.Bin(OpSub, b, m.tb.Const(8, 32)), b)
		}
		return m.mkStr(out)
	}
	in["(*strings.Builder).String"] = func(fr *frame, args []Value) Value {
		m := fr.m
		st := (*m.derefPtr(args[0])).(Struct)
		buf := st[1].([]Value)
		return m.mkStr(sliceTerms(buf))
	}
	in["(*strings.Builder).copyCheck"] = func(fr *frame, args []Value) Value { return nil }
	in["strings.Clone"] = func(fr *frame, args []Value) Value { return args[0] }
	in["internal/stringslite.Clone"] = in["strings.Clone"]

	in["github.com/cnotch/ipchub/utils/murmur.stringToBinary"] = func(fr *frame, args []Value) Value {
		bs := fr.m.strBytes(args[0].(Str))
		out := make([]Value, len(bs))
		for i, b := range bs {
			out[i] = b
		}
		return out
	}
	// crypto/md5 (assembly block function): computed concretely
	in["crypto/md5.Sum"] = func(fr *frame, args []Value) Value {
		m := fr.m
		in := args[0].([]Value)
		buf := make([]byte, len(in))
		for i, v := range in {
			t := v.(*Term)
			if !t.IsConst() {
				m.unsupported("md5 of symbolic data")
			}
			buf[i] = byte(t.Val)
		}
		sum := md5.Sum(buf)
		out := make(Array, 16)
		for i := range out {
			out[i] = m.tb.Const(8, uint64(sum[i]))
		}
		return out
	}
	// security.NewID: process-wide counter seeded from the clock -> per-path concrete counter
	in["github.com/cnotch/ipchub/provider/security.NewID"] = func(fr *frame, args []Value) Value {
		m := fr.m
		n, _ := m.side["security.nextid"].(uint64)
		if n == 0 {
			n = 100000
		}
		n++
		m.side["security.nextid"] = n
		return m.tb.Const(64, n)
	}
	// write-rate limiter (clock arithmetic with 64-bit multiplications): by default the
	// limiter never asks for buffering; checks that depend on it stub it as "fresh"
	in["(*github.com/kelindar/rate.Limiter).Limit"] = func(fr *frame, args []Value) Value {
		fr.m.StubsUsed["(*rate.Limiter).Limit -> false"] = true
		return fr.m.tb.False()
	}
	// sort.Slice / SliceStable / SliceIsSorted (reflection-based swapper): insertion sort
	// driven by the less closure
	sortSlice := func(fr *frame, args []Value) Value {
		m := fr.m
		itf := args[0].(Iface)
		sl, ok := itf.V.([]Value)
		if !ok {
			m.unsupported("sort.Slice on %T", itf.V)
		}
		less := func(i, j int) bool {
			r := m.call(fr, m.curPos, args[1], []Value{m.tb.Const(64, uint64(i)), m.tb.Const(64, uint64(j))})
			return m.branch(r.(*Term))
		}
		for i := 1; i < len(sl); i++ {
			for j := i; j > 0 && less(j, j-1); j-- {
				sl[j], sl[j-1] = sl[j-1], sl[j]
			}
		}
		return nil
	}
	in["sort.Slice"] = sortSlice
	in["sort.SliceStable"] = sortSlice
	// murmur hash (unsafe pointer arithmetic): opaque value, only used to derive file names
	murmurStub := func(fr *frame, args []Value) Value {
		return fr.m.tb.Const(32, 0x5eed5eed)
	}
	in["github.com/cnotch/ipchub/utils/murmur.Of"] = murmurStub
	in["github.com/cnotch/ipchub/utils/murmur.OfString"] = murmurStub
	// ---- unsafe builtins appear as calls to ssa.Builtin; handled in callBuiltin ----

	// ---- fmt / errors / debug ----
	// fmt: formatted for real when every operand is concrete (ints, strings, floats, bools);
	// symbolic operands are rendered as a placeholder (formatting is never the subject of a claim)
	in["fmt.Sprintf"] = func(fr *frame, args []Value) Value {
		return Str{S: fr.m.goSprintf(fr.m.concStrOr(args[0], "%v"), args[1])}
	}
	in["fmt.Sprint"] = func(fr *frame, args []Value) Value {
		return Str{S: fmt.Sprint(fr.m.goArgs(args[0])...)}
	}
	in["fmt.Sprintln"] = func(fr *frame, args []Value) Value {
		return Str{S: fmt.Sprintln(fr.m.goArgs(args[0])...)}
	}
	in["fmt.Errorf"] = func(fr *frame, args []Value) Value {
		m := fr.m
		return m.newError(m.goSprintf(m.concStrOr(args[0], "%v"), args[1]))
	}
	fprint := func(fr *frame, w Value, text string) Value {
		m := fr.m
		itf := w.(Iface)
		if itf.T == nil {
			m.runtimePanic("invalid memory address or nil pointer dereference (nil io.Writer)")
		}
		f := m.P.Prog.LookupMethod(itf.T, nil, "Write")
		if f == nil {
			m.unsupported("fmt.Fprint: writer without Write")
		}
		buf := make([]Value, len(text))
		for i := 0; i < len(text); i++ {
			buf[i] = m.tb.Const(8, uint64(text[i]))
		}
		return m.call(fr, m.curPos, f, []Value{itf.V, buf})
	}
	in["fmt.Fprintf"] = func(fr *frame, args []Value) Value {
		return fprint(fr, args[0], fr.m.goSprintf(fr.m.concStrOr(args[1], "%v"), args[2]))
	}
	in["fmt.Fprint"] = func(fr *frame, args []Value) Value {
		return fprint(fr, args[0], fmt.Sprint(fr.m.goArgs(args[1])...))
	}
	in["fmt.Fprintln"] = func(fr *frame, args []Value) Value {
		return fprint(fr, args[0], fmt.Sprintln(fr.m.goArgs(args[1])...))
	}
	noPrint := func(fr *frame, args []Value) Value { return Tuple{fr.m.tb.Const(64, 0), Iface{}} }
	in["fmt.Printf"] = noPrint
	in["fmt.Println"] = noPrint
	in["fmt.Print"] = noPrint
	in["runtime/debug.Stack"] = func(fr *frame, args []Value) Value { return []Value{} }
	in["runtime.Gosched"] = func(fr *frame, args []Value) Value {
		if fr.m.threads != nil {
			fr.m.threads.yield(fr.m, "Gosched")
		}
		return nil
	}
	in["runtime.KeepAlive"] = func(fr *frame, args []Value) Value { return nil }
	// math/bits: bit length / leading zeros as an ite chain over the bit positions (the library
	// versions index 256-entry tables with a symbolic byte)
	bitLen := func(m *Machine, x *Term, w int) *Term {
		tb := m.tb
		if x.Sort.W > w {
			x = tb.Extract(x, w-1, 0)
		}
		res := tb.Const(64, 0)
		for i := 0; i < w; i++ { // highest set bit wins: build from the lowest
			bit := tb.Extract(x, i, i)
			res = tb.Ite(tb.Eq(bit, tb.Const(1, 1)), tb.Const(64, uint64(i+1)), res)
		}
		return res
	}
	for _, e := range []struct {
		name string
		w    int
	}{{"8", 8}, {"16", 16}, {"32", 32}, {"64", 64}, {"", 64}} {
		w := e.w
		in["math/bits.Len"+e.name] = func(fr *frame, args []Value) Value {
			return bitLen(fr.m, args[0].(*Term), w)
		}
		in["math/bits.LeadingZeros"+e.name] = func(fr *frame, args []Value) Value {
			m := fr.m
			return m.tb.Bin(OpSub, m.tb.Const(64, uint64(w)), bitLen(m, args[0].(*Term), w))
		}
	}
	// call-stack introspection (diagnostics only): unknown caller
	in["runtime.Caller"] = func(fr *frame, args []Value) Value {
		tb := fr.m.tb
		return Tuple{tb.Const(64, 0), Str{}, tb.Const(64, 0), tb.False()}
	}
	in["runtime.Callers"] = func(fr *frame, args []Value) Value { return fr.m.tb.Const(64, 0) }
	in["runtime.SetFinalizer"] = func(fr *frame, args []Value) Value { return nil }
	in["runtime.GOMAXPROCS"] = func(fr *frame, args []Value) Value { return fr.m.tb.Const(64, 1) }
	in["runtime.NumCPU"] = func(fr *frame, args []Value) Value { return fr.m.tb.Const(64, 1) }

	// ---- math ----
	in["math.Float64bits"] = func(fr *frame, args []Value) Value {
		return fr.m.fbits(args[0])
	}
	in["math.Float64frombits"] = func(fr *frame, args []Value) Value {
		t := args[0].(*Term)
		if t.IsConst() {
			return math.Float64frombits(t.Val)
		}
		return &FSym{t}
	}
	in["math.Float32bits"] = func(fr *frame, args []Value) Value {
		f, ok := args[0].(float32)
		if !ok {
			fr.m.unsupported("Float32bits symbolic")
		}
		return fr.m.tb.Const(32, uint64(math.Float32bits(f)))
	}
	in["math.Float32frombits"] = func(fr *frame, args []Value) Value {
		t := args[0].(*Term)
		if !t.IsConst() {
			fr.m.unsupported("Float32frombits symbolic")
		}
		return math.Float32frombits(uint32(t.Val))
	}
	for _, n := range []string{"Floor", "Ceil", "Trunc", "Sqrt", "Abs"} {
		n := n
		in["math."+n] = func(fr *frame, args []Value) Value {
			f, ok := args[0].(float64)
			if !ok {
				return &FSym{fr.m.tb.UF("fp."+strings.ToLower(n), BV(64), fr.m.fbits(args[0]))}
			}
			switch n {
			case "Floor":
				return math.Floor(f)
			case "Ceil":
				return math.Ceil(f)
			case "Trunc":
				return math.Trunc(f)
			case "Sqrt":
				return math.Sqrt(f)
			}
			return math.Abs(f)
		}
	}

	registerSyncIntrinsics(P)
	registerOSIntrinsics(P)
	registerTimeIntrinsics(P)
}

func nz(a []*Term) []*Term {
	if a == nil {
		return []*Term{}
	}
	return a
}

func sliceTerms(s []Value) []*Term {
	out := make([]*Term, len(s))
	for i, v := range s {
		out[i] = v.(*Term)
	}
	return out
}

// newError builds an *errors.errorString value with a fresh identity.
func (m *Machine) newError(msg string) Value {
	ep := m.P.Pkgs["errors"]
	if ep == nil {
		m.unsupported("errors package not loaded")
	}
	t := ep.Type("errorString").Object().Type()
	var cell Value = Struct{Str{S: msg}}
	return Iface{T: types.NewPointer(t), V: &cell}
}

func (m *Machine) indexByte(bs []*Term, c *Term) Value {
	tb := m.tb
	res := tb.Const(64, ^uint64(0))
	for i := len(bs) - 1; i >= 0; i-- {
		res = tb.Ite(tb.Eq(bs[i], c), tb.Const(64, uint64(i)), res)
	}
	return res
}

func (m *Machine) countByte(bs []*Term, c *Term) Value {
	tb := m.tb
	res := tb.Const(64, 0)
	for _, b := range bs {
		res = tb.Bin(OpAdd, res, tb.Ite(tb.Eq(b, c), tb.Const(64, 1), tb.Const(64, 0)))
	}
	return res
}

func (m *Machine) indexSub(s, sub []*Term) Value {
	tb := m.tb
	n, k := len(s), len(sub)
	if k == 0 {
		return tb.Const(64, 0)
	}
	res := tb.Const(64, ^uint64(0))
	for i := n - k; i >= 0; i-- {
		eq := tb.True()
		for j := 0; j < k; j++ {
			eq = tb.And(eq, tb.Eq(s[i+j], sub[j]))
			if eq.IsFalse() {
				break
			}
		}
		res = tb.Ite(eq, tb.Const(64, uint64(i)), res)
	}
	return res
}

func (m *Machine) concStrOr(v Value, def string) string {
	if s, ok := v.(Str).Concrete(); ok {
		return s
	}
	return def
}

// goArgs converts a []interface{} value of the interpreted program into Go values.
func (m *Machine) goArgs(v Value) []interface{} {
	sl, _ := v.([]Value)
	out := make([]interface{}, len(sl))
	for i, a := range sl {
		out[i] = m.goValue(a)
	}
	return out
}

func (m *Machine) goValue(a Value) interface{} {
	itf, ok := a.(Iface)
	if !ok {
		return "<?>"
	}
	if itf.T == nil {
		return nil
	}
	switch x := itf.V.(type) {
	case *Term:
		if !x.IsConst() {
			return "<sym>"
		}
		if x.Sort.Bool {
			return x.Val == 1
		}
		if _, signed, ok := intInfo(itf.T); ok {
			if signed {
				return sext(x.Val, x.Sort.W)
			}
			return x.Val
		}
	case Str:
		if s, ok := x.Concrete(); ok {
			return s
		}
		return "<sym>"
	case float64:
		return x
	case float32:
		return x
	case *FSym:
		return "<symfloat>"
	case *Value:
		// error values
		if x != nil {
			if st, ok := (*x).(Struct); ok && len(st) == 1 {
				if s, ok := st[0].(Str); ok {
					if c, ok := s.Concrete(); ok {
						return c
					}
				}
			}
		}
		return "<ptr>"
	}
	return "<" + itf.T.String() + ">"
}

func (m *Machine) goSprintf(format string, args Value) string {
	ga := m.goArgs(args)
	// placeholders are strings: neutralise numeric verbs for them
	for _, a := range ga {
		if s, ok := a.(string); ok && (s == "<sym>" || s == "<symfloat>" || s == "<?>" || s == "<ptr>") {
			return "<fmt:" + format + ">"
		}
	}
	return fmt.Sprintf(format, ga...)
}
