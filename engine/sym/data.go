package sym

import (
	"fmt"
	"go/token"
	"go/types"
	"unicode/utf8"

	"golang.org/x/tools/go/ssa"
)

// ---- indices ----

func (m *Machine) idx64(idx *Term, t types.Type) *Term {
	if idx.Sort.W == 64 {
		return idx
	}
	_, signed, _ := intInfo(t)
	if signed {
		return m.tb.SExt(idx, 64)
	}
	return m.tb.ZExt(idx, 64)
}

func (m *Machine) boundsCheck(i64 *Term, n int, what string) {
	inb := m.tb.Cmp(OpULt, i64, m.tb.Const(64, uint64(n)))
	if !m.branch(inb) {
		m.runtimePanic(fmt.Sprintf("index out of range [%s] with length %d", what, n))
	}
}

func allTerms(base []Value) bool {
	for _, v := range base {
		if _, ok := v.(*Term); !ok {
			return false
		}
	}
	return true
}

func (m *Machine) indexAddr(base []Value, idx *Term, it types.Type) Value {
	i64 := m.idx64(idx, it)
	m.boundsCheck(i64, len(base), "i")
	if i64.IsConst() {
		return &base[i64.Val]
	}
	if len(base) <= m.P.MaxSymIndex && allTerms(base) {
		return &SymPtr{Base: base, Idx: i64}
	}
	v := m.concretize(i64, "index")
	return &base[v]
}

func (m *Machine) symLoad(sp *SymPtr) Value {
	n := len(sp.Base)
	// 256-entry byte tables that are the identity except for a few entries (byte replacers,
	// case-mapping tables): low byte of the index, overridden at the exceptions
	if n == 256 {
		exc := 0
		ok := true
		for k, v := range sp.Base {
			t := v.(*Term)
			if !t.IsConst() || t.Sort.W != 8 {
				ok = false
				break
			}
			if t.Val != uint64(k) {
				exc++
			}
		}
		if ok && exc <= 64 {
			res := m.tb.Extract(sp.Idx, 7, 0)
			for k, v := range sp.Base {
				t := v.(*Term)
				if t.Val != uint64(k) {
					res = m.tb.Ite(m.tb.Eq(sp.Idx, m.tb.Const(64, uint64(k))), t, res)
				}
			}
			return res
		}
	}
	// constant tables with few distinct values: group indices by value
	if n > 8 {
		groups := map[*Term][]int{}
		var order []*Term
		allConst := true
		for k, v := range sp.Base {
			t := v.(*Term)
			if !t.IsConst() {
				allConst = false
				break
			}
			if _, ok := groups[t]; !ok {
				order = append(order, t)
				if len(order) > 4 {
					allConst = false
					break
				}
			}
			groups[t] = append(groups[t], k)
		}
		if allConst {
			// majority value is the default
			maj := order[0]
			for _, t := range order {
				if len(groups[t]) > len(groups[maj]) {
					maj = t
				}
			}
			res := maj
			for _, t := range order {
				if t == maj {
					continue
				}
				c := m.tb.False()
				for _, k := range groups[t] {
					c = m.tb.Or(c, m.tb.Eq(sp.Idx, m.tb.Const(64, uint64(k))))
				}
				res = m.tb.Ite(c, t, res)
			}
			return res
		}
	}
	res := sp.Base[n-1].(*Term)
	for k := n - 2; k >= 0; k-- {
		res = m.tb.Ite(m.tb.Eq(sp.Idx, m.tb.Const(64, uint64(k))), sp.Base[k].(*Term), res)
	}
	return res
}

func (m *Machine) symStore(sp *SymPtr, v Value) {
	vt, ok := v.(*Term)
	if !ok {
		m.unsupported("symbolic-index store of %T", v)
	}
	for k := range sp.Base {
		sp.Base[k] = m.tb.Ite(m.tb.Eq(sp.Idx, m.tb.Const(64, uint64(k))), vt, sp.Base[k].(*Term))
	}
}

// ---- strings ----

func (m *Machine) strBytes(s Str) []*Term {
	if s.B != nil {
		return s.B
	}
	out := make([]*Term, len(s.S))
	for i := 0; i < len(s.S); i++ {
		out[i] = m.tb.Const(8, uint64(s.S[i]))
	}
	return out
}

func (m *Machine) mkStr(bs []*Term) Str {
	conc := true
	for _, b := range bs {
		if !b.IsConst() {
			conc = false
			break
		}
	}
	if conc {
		buf := make([]byte, len(bs))
		for i, b := range bs {
			buf[i] = byte(b.Val)
		}
		return Str{S: string(buf)}
	}
	if len(bs) == 0 {
		return Str{}
	}
	cp := make([]*Term, len(bs))
	copy(cp, bs)
	return Str{B: cp}
}

func (m *Machine) strConcat(a, b Str) Str {
	if a.B == nil && b.B == nil {
		return Str{S: a.S + b.S}
	}
	if a.Len() == 0 {
		return b
	}
	if b.Len() == 0 {
		return a
	}
	x := append(append([]*Term{}, m.strBytes(a)...), m.strBytes(b)...)
	return Str{B: x}
}

func (m *Machine) strEq(a, b Str) *Term {
	if a.B == nil && b.B == nil {
		return m.tb.Bool(a.S == b.S)
	}
	if a.Len() != b.Len() {
		return m.tb.False()
	}
	ab, bb := m.strBytes(a), m.strBytes(b)
	r := m.tb.True()
	for i := range ab {
		r = m.tb.And(r, m.tb.Eq(ab[i], bb[i]))
		if r.IsFalse() {
			return r
		}
	}
	return r
}

// strLess: a < b (or <= when orEq) lexicographically.
func (m *Machine) strLess(a, b Str, orEq bool) *Term {
	if a.B == nil && b.B == nil {
		if orEq {
			return m.tb.Bool(a.S <= b.S)
		}
		return m.tb.Bool(a.S < b.S)
	}
	ab, bb := m.strBytes(a), m.strBytes(b)
	n := len(ab)
	if len(bb) < n {
		n = len(bb)
	}
	// result when common prefix equal
	var res *Term
	if orEq {
		res = m.tb.Bool(len(ab) <= len(bb))
	} else {
		res = m.tb.Bool(len(ab) < len(bb))
	}
	for i := n - 1; i >= 0; i-- {
		lt := m.tb.Cmp(OpULt, ab[i], bb[i])
		eq := m.tb.Eq(ab[i], bb[i])
		res = m.tb.Or(lt, m.tb.And(eq, res))
	}
	return res
}

func (m *Machine) strIndex(s Str, idx *Term, it types.Type) Value {
	i64 := m.idx64(idx, it)
	n := s.Len()
	m.boundsCheck(i64, n, "i")
	if i64.IsConst() {
		if s.B != nil {
			return s.B[i64.Val]
		}
		return m.tb.Const(8, uint64(s.S[i64.Val]))
	}
	if n <= m.P.MaxSymIndex {
		bs := m.strBytes(s)
		res := bs[n-1]
		for k := n - 2; k >= 0; k-- {
			res = m.tb.Ite(m.tb.Eq(i64, m.tb.Const(64, uint64(k))), bs[k], res)
		}
		return res
	}
	v := m.concretize(i64, "string index")
	if s.B != nil {
		return s.B[v]
	}
	return m.tb.Const(8, uint64(s.S[v]))
}

func (m *Machine) strSlice(s Str, lo, hi int) Str {
	if s.B != nil {
		return m.mkStr(s.B[lo:hi])
	}
	return Str{S: s.S[lo:hi]}
}

// ---- slicing ----

func (m *Machine) slice(xt types.Type, x, lo, hi, max Value) Value {
	var Len, Cap int
	switch x := x.(type) {
	case Str:
		Len = x.Len()
		Cap = Len
	case []Value:
		Len = len(x)
		Cap = cap(x)
	case *Value:
		a := (*m.derefPtr(x)).(Array)
		Len = len(a)
		Cap = Len
	default:
		m.unsupported("slice of %T", x)
	}
	tb := m.tb
	l := tb.Const(64, 0)
	if lo != nil {
		l = m.to64(lo.(*Term))
	}
	var h *Term
	limit := Cap
	if _, isStr := x.(Str); isStr {
		limit = Len
	}
	if hi != nil {
		h = m.to64(hi.(*Term))
	} else {
		h = tb.Const(64, uint64(Len))
	}
	mx := tb.Const(64, uint64(Cap))
	if max != nil {
		mx = m.to64(max.(*Term))
		ok := tb.Cmp(OpULe, mx, tb.Const(64, uint64(Cap)))
		if !m.branch(ok) {
			m.runtimePanic(fmt.Sprintf("slice bounds out of range [::max] with capacity %d", Cap))
		}
		ok = tb.Cmp(OpULe, h, mx)
		if !m.branch(ok) {
			m.runtimePanic("slice bounds out of range [:hi:max]")
		}
	} else {
		ok := tb.Cmp(OpULe, h, tb.Const(64, uint64(limit)))
		if !m.branch(ok) {
			m.runtimePanic(fmt.Sprintf("slice bounds out of range [:hi] with capacity %d", limit))
		}
	}
	ok := tb.Cmp(OpULe, l, h)
	if !m.branch(ok) {
		m.runtimePanic("slice bounds out of range [lo:hi]")
	}
	li := int(m.concretize(l, "slice lo"))
	hii := int(m.concretize(h, "slice hi"))
	mxi := int(m.concretize(mx, "slice max"))
	switch x := x.(type) {
	case Str:
		return m.strSlice(x, li, hii)
	case []Value:
		if x == nil {
			return []Value(nil)
		}
		return x[li:hii:mxi]
	case *Value:
		a := (*x).(Array)
		return []Value(a)[li:hii:mxi]
	}
	return nil
}

func (m *Machine) to64(t *Term) *Term {
	if t.Sort.W == 64 {
		return t
	}
	// slice indices are always of integer type; sign-extension is the conservative choice
	return m.tb.SExt(t, 64)
}

// ---- maps ----

type MapEntry struct {
	K, V    Value
	Deleted bool
}

func (m *Machine) mapFind(mp *Map, key Value) int {
	if mp == nil {
		return -1
	}
	// fast path: syntactically identical key
	for i, k := range mp.Keys {
		eq := m.equals(mp.KT, k, key)
		if eq.IsConst() {
			if eq.Val == 1 {
				return i
			}
			continue
		}
		if m.branch(eq) {
			return i
		}
	}
	return -1
}

func (m *Machine) mapInsert(mp *Map, key, val Value) {
	if i := m.mapFind(mp, key); i >= 0 {
		mp.Vals[i] = copyVal(val)
		return
	}
	mp.Keys = append(mp.Keys, copyVal(key))
	mp.Vals = append(mp.Vals, copyVal(val))
}

func (m *Machine) mapDelete(mp *Map, key Value) {
	if i := m.mapFind(mp, key); i >= 0 {
		mp.Keys = append(append([]Value{}, mp.Keys[:i]...), mp.Keys[i+1:]...)
		mp.Vals = append(append([]Value{}, mp.Vals[:i]...), mp.Vals[i+1:]...)
	}
}

func (m *Machine) lookup(instr *ssa.Lookup, x, idx Value) Value {
	switch x := x.(type) {
	case Str:
		return m.strIndex(x, idx.(*Term), instr.Index.Type())
	case *Map:
		var v Value
		ok := false
		if i := m.mapFind(x, idx); i >= 0 {
			v = copyVal(x.Vals[i])
			ok = true
		} else {
			v = m.zero(instr.X.Type().Underlying().(*types.Map).Elem())
		}
		if instr.CommaOk {
			return Tuple{v, m.tb.Bool(ok)}
		}
		return v
	}
	m.unsupported("lookup on %T", x)
	return nil
}

// ---- iterators ----

type iter interface {
	next(m *Machine) Tuple
}

type strIter struct {
	s Str
	i int
}

func (it *strIter) next(m *Machine) Tuple {
	okv := m.tb.True()
	if it.i >= it.s.Len() {
		return Tuple{m.tb.False(), m.tb.Const(64, 0), m.tb.Const(32, 0)}
	}
	if c, ok := it.s.Concrete(); ok {
		r, sz := utf8.DecodeRuneInString(c[it.i:])
		idx := it.i
		it.i += sz
		return Tuple{okv, m.tb.Const(64, uint64(idx)), m.tb.Const(32, uint64(r))}
	}
	b := it.s.B[it.i]
	if !b.IsConst() {
		// symbolic byte: restricted to ASCII (stated assumption)
		m.assumeASCII(b)
		idx := it.i
		it.i++
		return Tuple{okv, m.tb.Const(64, uint64(idx)), m.tb.ZExt(b, 32)}
	}
	if b.Val < 0x80 {
		idx := it.i
		it.i++
		return Tuple{okv, m.tb.Const(64, uint64(idx)), m.tb.Const(32, b.Val)}
	}
	m.unsupported("range over string with non-ASCII concrete byte next to symbolic bytes")
	return nil
}

func (m *Machine) assumeASCII(b *Term) {
	c := m.tb.Cmp(OpULt, b, m.tb.Const(8, 0x80))
	if !m.pcSet[c.ID] {
		m.asciiAssumed = true
		m.assume(c)
	}
}

type mapIter struct {
	keys []Value
	mp   *Map
	i    int
}

func (it *mapIter) next(m *Machine) Tuple {
	for it.i < len(it.keys) {
		k := it.keys[it.i]
		it.i++
		// still present? (identity of stored key value)
		for j, kk := range it.mp.Keys {
			if sameKey(kk, k) {
				return Tuple{m.tb.True(), copyVal(k), copyVal(it.mp.Vals[j])}
			}
		}
	}
	return Tuple{m.tb.False(), nil, nil}
}

func sameKey(a, b Value) bool {
	switch a := a.(type) {
	case *Term:
		bt, ok := b.(*Term)
		return ok && a == bt
	case Str:
		bs, ok := b.(Str)
		if !ok {
			return false
		}
		if a.B == nil && bs.B == nil {
			return a.S == bs.S
		}
		if a.B != nil && bs.B != nil && len(a.B) == len(bs.B) {
			for i := range a.B {
				if a.B[i] != bs.B[i] {
					return false
				}
			}
			return true
		}
		return false
	case Iface:
		bi, ok := b.(Iface)
		if !ok || (a.T == nil) != (bi.T == nil) {
			return false
		}
		if a.T == nil {
			return true
		}
		return types.Identical(a.T, bi.T) && sameKey(a.V, bi.V)
	case *Value:
		bp, ok := b.(*Value)
		return ok && a == bp
	case Struct:
		bs, ok := b.(Struct)
		if !ok || len(a) != len(bs) {
			return false
		}
		for i := range a {
			if !sameKey(a[i], bs[i]) {
				return false
			}
		}
		return true
	case Array:
		bs, ok := b.(Array)
		if !ok || len(a) != len(bs) {
			return false
		}
		for i := range a {
			if !sameKey(a[i], bs[i]) {
				return false
			}
		}
		return true
	}
	return a == b
}

func (m *Machine) rangeIter(x Value, t types.Type) iter {
	switch x := x.(type) {
	case *Map:
		if x == nil {
			return &mapIter{mp: &Map{}}
		}
		keys := append([]Value{}, x.Keys...)
		if m.P.SymMapOrder && len(keys) > 1 {
			// symbolic iteration order: choose a permutation
			perm := make([]Value, 0, len(keys))
			rest := keys
			for len(rest) > 1 {
				c := m.choose(len(rest), 'n')
				perm = append(perm, rest[c])
				rest = append(append([]Value{}, rest[:c]...), rest[c+1:]...)
			}
			perm = append(perm, rest[0])
			keys = perm
		}
		return &mapIter{keys: keys, mp: x}
	case Str:
		return &strIter{s: x}
	}
	m.unsupported("range over %T", x)
	return nil
}

// ---- type assertions ----

func (m *Machine) typeAssert(instr *ssa.TypeAssert, itf Iface) Value {
	var v Value
	err := ""
	if idst, ok := instr.AssertedType.Underlying().(*types.Interface); ok {
		v = itf
		if itf.T == nil {
			err = fmt.Sprintf("interface conversion: interface is nil, not %s", instr.AssertedType)
		} else if meth, _ := types.MissingMethod(itf.T, idst, true); meth != nil {
			err = fmt.Sprintf("interface conversion: %v is not %v: missing method %s", itf.T, idst, meth.Name())
		}
	} else if itf.T != nil && types.Identical(itf.T, instr.AssertedType) {
		v = itf.V
	} else {
		err = fmt.Sprintf("interface conversion: interface is %v, not %s", itf.T, instr.AssertedType)
	}
	if err != "" {
		if !instr.CommaOk {
			panic(targetPanic{v: Iface{T: m.P.runtimeErrorString, V: Str{S: err}}, pos: instr.Pos(), msg: err})
		}
		return Tuple{m.zero(instr.AssertedType), m.tb.False()}
	}
	if instr.CommaOk {
		return Tuple{v, m.tb.True()}
	}
	return v
}

// ---- builtins ----

func (m *Machine) callBuiltin(caller *frame, callpos token.Pos, fn *ssa.Builtin, args []Value) Value {
	tb := m.tb
	switch fn.Name() {
	case "append":
		if len(args) == 1 {
			return args[0]
		}
		var add []Value
		switch s := args[1].(type) {
		case Str:
			for _, b := range m.strBytes(s) {
				add = append(add, b)
			}
		case []Value:
			add = s
		}
		dst := args[0].([]Value)
		if len(add) == 0 {
			return dst
		}
		if len(dst)+len(add) <= cap(dst) {
			out := dst[:len(dst)+len(add)]
			tmp := make([]Value, len(add))
			for i, v := range add {
				tmp[i] = copyVal(v)
			}
			copy(out[len(dst):], tmp)
			return out
		}
		nc := 2 * cap(dst)
		if nc < len(dst)+len(add) {
			nc = len(dst) + len(add)
		}
		if nc > m.P.MaxAlloc*4 {
			m.unsupported("append beyond allocation bound")
		}
		out := make([]Value, len(dst), nc)
		copy(out, dst)
		for _, v := range add {
			out = append(out, copyVal(v))
		}
		if t, ok := out[0].(*Term); ok && !t.Sort.Bool {
			z := m.tb.Const(t.Sort.W, 0)
			full := out[:nc]
			for i := len(out); i < nc; i++ {
				full[i] = z
			}
		}
		// fill spare capacity with zero values lazily: spare cells are never read before written
		return out

	case "copy":
		dst := args[0].([]Value)
		var src []Value
		switch s := args[1].(type) {
		case Str:
			for _, b := range m.strBytes(s) {
				src = append(src, b)
			}
		case []Value:
			src = s
		}
		n := len(dst)
		if len(src) < n {
			n = len(src)
		}
		tmp := make([]Value, n)
		for i := 0; i < n; i++ {
			tmp[i] = copyVal(src[i])
		}
		copy(dst, tmp)
		return tb.Const(64, uint64(n))

	case "close":
		m.chanClose(args[0].(*Chan))
		return nil

	case "delete":
		mp := args[0].(*Map)
		if mp != nil {
			m.mapDelete(mp, args[1])
		}
		return nil

	case "clear":
		switch x := args[0].(type) {
		case *Map:
			if x != nil {
				x.Keys, x.Vals = nil, nil
			}
		case []Value:
			m.unsupported("clear(slice)")
		}
		return nil

	case "print", "println":
		return nil

	case "len":
		switch x := args[0].(type) {
		case Str:
			return tb.Const(64, uint64(x.Len()))
		case Array:
			return tb.Const(64, uint64(len(x)))
		case *Value:
			return tb.Const(64, uint64(len((*x).(Array))))
		case []Value:
			return tb.Const(64, uint64(len(x)))
		case *Map:
			if x == nil {
				return tb.Const(64, 0)
			}
			return tb.Const(64, uint64(len(x.Keys)))
		case *Chan:
			if x == nil {
				return tb.Const(64, 0)
			}
			return tb.Const(64, uint64(len(x.Buf)))
		}
		m.unsupported("len of %T", args[0])

	case "cap":
		switch x := args[0].(type) {
		case Array:
			return tb.Const(64, uint64(len(x)))
		case *Value:
			return tb.Const(64, uint64(len((*x).(Array))))
		case []Value:
			return tb.Const(64, uint64(cap(x)))
		case *Chan:
			if x == nil {
				return tb.Const(64, 0)
			}
			return tb.Const(64, uint64(x.Cap))
		}
		m.unsupported("cap of %T", args[0])

	case "min", "max":
		sig := fn.Type().(*types.Signature)
		pt := sig.Params().At(0).Type()
		res := args[0]
		for _, a := range args[1:] {
			switch x := res.(type) {
			case *Term:
				_, signed, ok := intInfo(pt)
				if !ok {
					m.unsupported("min/max on %s", pt)
				}
				y := a.(*Term)
				var lt *Term
				if signed {
					lt = tb.Cmp(OpSLt, x, y)
				} else {
					lt = tb.Cmp(OpULt, x, y)
				}
				if fn.Name() == "min" {
					res = tb.Ite(lt, x, y)
				} else {
					res = tb.Ite(lt, y, x)
				}
			case float64:
				y := a.(float64)
				if (fn.Name() == "min") == (y < x) {
					res = y
				}
			default:
				m.unsupported("min/max on %T", res)
			}
		}
		return res

	case "recover":
		return m.doRecover(caller)

	case "ssa:wrapnilchk":
		recv := args[0]
		if p, ok := recv.(*Value); ok && p == nil {
			m.runtimePanic("value method called using nil pointer")
		}
		return recv
	}
	m.unsupported("builtin %s", fn.Name())
	return nil
}

// ---- channels (sequential fallback: buffered only) ----

func (m *Machine) chanSend(c *Chan, v Value) {
	if m.threads != nil {
		m.threads.chanSend(m, c, v)
		return
	}
	if c == nil {
		m.unsupported("send on nil channel blocks forever")
	}
	if c.Closed {
		m.runtimePanic("send on closed channel")
	}
	if len(c.Buf) >= c.Cap {
		// sequential mode: an unbuffered/full send would block; record it as delivered to a notional receiver
		m.unsupported("blocking channel send in sequential harness")
	}
	c.Buf = append(c.Buf, copyVal(v))
}

func (m *Machine) chanRecv(c *Chan, commaOk bool) Value {
	if m.threads != nil {
		return m.threads.chanRecv(m, c, commaOk)
	}
	if c == nil {
		m.unsupported("receive on nil channel blocks forever")
	}
	if len(c.Buf) > 0 {
		v := c.Buf[0]
		c.Buf = c.Buf[1:]
		if commaOk {
			return Tuple{v, m.tb.True()}
		}
		return v
	}
	if c.Closed {
		z := m.zero(c.ET)
		if commaOk {
			return Tuple{z, m.tb.False()}
		}
		return z
	}
	m.unsupported("blocking channel receive in sequential harness")
	return nil
}

func (m *Machine) chanClose(c *Chan) {
	if c == nil {
		m.runtimePanic("close of nil channel")
	}
	if c.Closed {
		m.runtimePanic("close of closed channel")
	}
	c.Closed = true
	if m.threads != nil {
		m.threads.wakeAll()
	}
}

func (m *Machine) doSelect(fr *frame, instr *ssa.Select) Value {
	// Supported: non-blocking or ready cases in order; otherwise blocks (threads) / unsupported.
	type st struct {
		c    *Chan
		send Value
		recv bool
	}
	var states []st
	for _, s := range instr.States {
		x := st{c: fr.get(s.Chan).(*Chan), recv: s.Dir == types.RecvOnly}
		if s.Send != nil {
			x.send = fr.get(s.Send)
		}
		states = append(states, x)
	}
	readyList := func() []int {
		var ready []int
		for i, s := range states {
			if s.c == nil {
				continue
			}
			if s.recv {
				if len(s.c.Buf) > 0 || s.c.Closed {
					ready = append(ready, i)
				}
			} else {
				capp := s.c.Cap
				if capp == 0 {
					capp = 1
				}
				if s.c.Closed || len(s.c.Buf) < capp {
					ready = append(ready, i)
				}
			}
		}
		return ready
	}
	for {
		ready := readyList()
		if len(ready) > 0 {
			k := ready[m.choose(len(ready), 'n')]
			s := states[k]
			r := Tuple{m.tb.Const(64, uint64(k)), m.tb.False()}
			var recvd Value
			recvOk := false
			if s.recv {
				t := m.chanRecv(s.c, true).(Tuple)
				recvd = t[0]
				recvOk = t[1].(*Term).IsTrue()
			} else {
				m.chanSend(s.c, s.send)
			}
			r[1] = m.tb.Bool(recvOk)
			for i, s2 := range instr.States {
				if s2.Dir == types.RecvOnly {
					if i == k {
						r = append(r, recvd)
					} else {
						r = append(r, m.zero(s2.Chan.Type().Underlying().(*types.Chan).Elem()))
					}
				}
			}
			return r
		}
		if !instr.Blocking {
			r := Tuple{m.tb.Const(64, ^uint64(0)), m.tb.False()}
			for _, s2 := range instr.States {
				if s2.Dir == types.RecvOnly {
					r = append(r, m.zero(s2.Chan.Type().Underlying().(*types.Chan).Elem()))
				}
			}
			return r
		}
		if m.threads == nil {
			m.unsupported("blocking select in sequential harness")
		}
		m.waitUntil(func() bool { return len(readyList()) > 0 }, "select")
	}
}
