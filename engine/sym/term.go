package sym

import (
	"fmt"
	"math/bits"
	"strings"
)

// Sorts: Bool, or bit-vector of width 1..64.
type Sort struct {
	Bool bool
	W    int
}

var BoolSort = Sort{Bool: true}

func BV(w int) Sort { return Sort{W: w} }

func (s Sort) String() string {
	if s.Bool {
		return "Bool"
	}
	return fmt.Sprintf("(_ BitVec %d)", s.W)
}

type Op uint8

const (
	OpConst Op = iota
	OpVar
	OpNot
	OpAnd
	OpOr
	OpIte
	OpEq
	OpAdd
	OpSub
	OpMul
	OpUDiv
	OpURem
	OpSDiv
	OpSRem
	OpBAnd
	OpBOr
	OpBXor
	OpBNot
	OpNeg
	OpShl
	OpLShr
	OpAShr
	OpULt
	OpULe
	OpSLt
	OpSLe
	OpExtract // a=hi b=lo
	OpZExt    // a=extra bits
	OpSExt    // a=extra bits
	OpConcat
	OpUF // uninterpreted function application: name, args
)

var opNames = map[Op]string{
	OpNot: "not", OpAnd: "and", OpOr: "or", OpIte: "ite", OpEq: "=",
	OpAdd: "bvadd", OpSub: "bvsub", OpMul: "bvmul", OpUDiv: "bvudiv", OpURem: "bvurem",
	OpSDiv: "bvsdiv", OpSRem: "bvsrem", OpBAnd: "bvand", OpBOr: "bvor", OpBXor: "bvxor",
	OpBNot: "bvnot", OpNeg: "bvneg", OpShl: "bvshl", OpLShr: "bvlshr", OpAShr: "bvashr",
	OpULt: "bvult", OpULe: "bvule", OpSLt: "bvslt", OpSLe: "bvsle", OpConcat: "concat",
}

type Term struct {
	ID   int
	Op   Op
	Sort Sort
	Args []*Term
	Val  uint64 // const value (masked), bool: 0/1
	Name string // var / UF name
	A, B int
}

func (t *Term) IsConst() bool { return t.Op == OpConst }
func (t *Term) IsTrue() bool  { return t.Op == OpConst && t.Sort.Bool && t.Val == 1 }
func (t *Term) IsFalse() bool { return t.Op == OpConst && t.Sort.Bool && t.Val == 0 }

// TermTable hash-conses terms. One per worker.
type TermTable struct {
	tab        map[termKey]*Term
	terms      []*Term
	Vars       []*Term
	UFs        map[string]*Term // name -> sample application (for declaration)
	small      [256]*Term
	small64    [1024]*Term
	tt         *Term
	ff         *Term
	varsCache  map[int]varsEntry
	truthCache map[int]bitset
}

func NewTermTable() *TermTable {
	tb := &TermTable{tab: map[termKey]*Term{}, UFs: map[string]*Term{}, varsCache: map[int]varsEntry{}, truthCache: map[int]bitset{}}
	tb.tt = tb.intern(&Term{Op: OpConst, Sort: BoolSort, Val: 1})
	tb.ff = tb.intern(&Term{Op: OpConst, Sort: BoolSort, Val: 0})
	for i := range tb.small {
		tb.small[i] = tb.intern(&Term{Op: OpConst, Sort: BV(8), Val: uint64(i)})
	}
	return tb
}

type termKey struct {
	op         Op
	isBool     bool
	w          int
	val        uint64
	a, b       int
	name       string
	n          int
	a0, a1, a2 int
}

func (tb *TermTable) intern(t *Term) *Term {
	return tb.mk(t.Op, t.Sort, t.Val, t.A, t.B, t.Name, t.Args...)
}

// mk hash-conses a term; it allocates only when the term is new.
func (tb *TermTable) mk(op Op, sort Sort, val uint64, a, b int, name string, args ...*Term) *Term {
	k := termKey{op: op, isBool: sort.Bool, w: sort.W, val: val, a: a, b: b, name: name, n: len(args), a0: -1, a1: -1, a2: -1}
	switch len(args) {
	case 0:
	case 1:
		k.a0 = args[0].ID
	case 2:
		k.a0, k.a1 = args[0].ID, args[1].ID
	case 3:
		k.a0, k.a1, k.a2 = args[0].ID, args[1].ID, args[2].ID
	default:
		var sb strings.Builder
		sb.WriteString(name)
		for _, x := range args {
			fmt.Fprintf(&sb, "|%d", x.ID)
		}
		k.name = sb.String()
	}
	if x, ok := tb.tab[k]; ok {
		return x
	}
	t := &Term{Op: op, Sort: sort, Val: val, A: a, B: b, Name: name}
	if len(args) > 0 {
		t.Args = make([]*Term, len(args))
		copy(t.Args, args)
	}
	t.ID = len(tb.terms)
	tb.terms = append(tb.terms, t)
	tb.tab[k] = t
	if op == OpVar {
		tb.Vars = append(tb.Vars, t)
	}
	return t
}

func mask(w int) uint64 {
	if w >= 64 {
		return ^uint64(0)
	}
	return (uint64(1) << uint(w)) - 1
}

func sext(v uint64, w int) int64 {
	if w >= 64 {
		return int64(v)
	}
	sh := uint(64 - w)
	return int64(v<<sh) >> sh
}

func (tb *TermTable) True() *Term  { return tb.tt }
func (tb *TermTable) False() *Term { return tb.ff }
func (tb *TermTable) Bool(b bool) *Term {
	if b {
		return tb.tt
	}
	return tb.ff
}

func (tb *TermTable) Const(w int, v uint64) *Term {
	v &= mask(w)
	if w == 8 {
		return tb.small[v]
	}
	if w == 64 && v < 1024 {
		if t := tb.small64[v]; t != nil {
			return t
		}
		t := tb.mk(OpConst, BV(64), v, 0, 0, "")
		tb.small64[v] = t
		return t
	}
	return tb.mk(OpConst, BV(w), v, 0, 0, "")
}

func (tb *TermTable) Var(name string, s Sort) *Term {
	return tb.intern(&Term{Op: OpVar, Sort: s, Name: name})
}

func (tb *TermTable) UF(name string, s Sort, args ...*Term) *Term {
	t := tb.intern(&Term{Op: OpUF, Sort: s, Name: name, Args: args})
	if _, ok := tb.UFs[name]; !ok {
		tb.UFs[name] = t
	}
	return t
}

func (tb *TermTable) Not(a *Term) *Term {
	if a.IsConst() {
		return tb.Bool(a.Val == 0)
	}
	if a.Op == OpNot {
		return a.Args[0]
	}
	return tb.mk(OpNot, BoolSort, 0, 0, 0, "", a)
}

func (tb *TermTable) And(a, b *Term) *Term {
	if a.IsConst() {
		if a.Val == 1 {
			return b
		}
		return tb.ff
	}
	if b.IsConst() {
		if b.Val == 1 {
			return a
		}
		return tb.ff
	}
	if a == b {
		return a
	}
	if a.ID > b.ID {
		a, b = b, a
	}
	return tb.mk(OpAnd, BoolSort, 0, 0, 0, "", a, b)
}

func (tb *TermTable) Or(a, b *Term) *Term {
	if a.IsConst() {
		if a.Val == 0 {
			return b
		}
		return tb.tt
	}
	if b.IsConst() {
		if b.Val == 0 {
			return a
		}
		return tb.tt
	}
	if a == b {
		return a
	}
	if a.ID > b.ID {
		a, b = b, a
	}
	return tb.mk(OpOr, BoolSort, 0, 0, 0, "", a, b)
}

func (tb *TermTable) Implies(a, b *Term) *Term { return tb.Or(tb.Not(a), b) }

func (tb *TermTable) Ite(c, a, b *Term) *Term {
	if c.IsConst() {
		if c.Val == 1 {
			return a
		}
		return b
	}
	if a == b {
		return a
	}
	if a.Sort.Bool {
		if a.IsConst() && b.IsConst() {
			if a.Val == 1 {
				return c
			}
			return tb.Not(c)
		}
	}
	if c.Op == OpNot {
		return tb.Ite(c.Args[0], b, a)
	}
	return tb.mk(OpIte, a.Sort, 0, 0, 0, "", c, a, b)
}

func (tb *TermTable) Eq(a, b *Term) *Term {
	if a == b {
		return tb.tt
	}
	if a.Sort != b.Sort {
		panic(fmt.Sprintf("Eq sort mismatch %v %v", a.Sort, b.Sort))
	}
	if a.IsConst() && b.IsConst() {
		return tb.Bool(a.Val == b.Val)
	}
	if a.Sort.Bool {
		if a.IsConst() {
			if a.Val == 1 {
				return b
			}
			return tb.Not(b)
		}
		if b.IsConst() {
			if b.Val == 1 {
				return a
			}
			return tb.Not(a)
		}
	}
	// ite(c, k1, k2) == k  with constants
	if b.IsConst() && a.Op == OpIte && a.Args[1].IsConst() && a.Args[2].IsConst() {
		return tb.Ite(a.Args[0], tb.Bool(a.Args[1].Val == b.Val), tb.Bool(a.Args[2].Val == b.Val))
	}
	if a.IsConst() && b.Op == OpIte && b.Args[1].IsConst() && b.Args[2].IsConst() {
		return tb.Ite(b.Args[0], tb.Bool(b.Args[1].Val == a.Val), tb.Bool(b.Args[2].Val == a.Val))
	}
	// zext(x) == const
	if b.IsConst() && a.Op == OpZExt {
		x := a.Args[0]
		if b.Val > mask(x.Sort.W) {
			return tb.ff
		}
		return tb.Eq(x, tb.Const(x.Sort.W, b.Val))
	}
	if a.IsConst() && b.Op == OpZExt {
		return tb.Eq(b, a)
	}
	if a.ID > b.ID {
		a, b = b, a
	}
	return tb.mk(OpEq, BoolSort, 0, 0, 0, "", a, b)
}

func foldBin(op Op, w int, x, y uint64) (uint64, bool) {
	m := mask(w)
	switch op {
	case OpAdd:
		return (x + y) & m, true
	case OpSub:
		return (x - y) & m, true
	case OpMul:
		return (x * y) & m, true
	case OpUDiv:
		if y == 0 {
			return m, true
		}
		return x / y, true
	case OpURem:
		if y == 0 {
			return x, true
		}
		return x % y, true
	case OpSDiv:
		sx, sy := sext(x, w), sext(y, w)
		if sy == 0 {
			if sx >= 0 {
				return m, true
			}
			return 1, true
		}
		if sy == -1 {
			return uint64(-sx) & m, true
		}
		return uint64(sx/sy) & m, true
	case OpSRem:
		sx, sy := sext(x, w), sext(y, w)
		if sy == 0 {
			return x, true
		}
		if sy == -1 {
			return 0, true
		}
		return uint64(sx%sy) & m, true
	case OpBAnd:
		return x & y, true
	case OpBOr:
		return x | y, true
	case OpBXor:
		return x ^ y, true
	case OpShl:
		if y >= uint64(w) {
			return 0, true
		}
		return (x << y) & m, true
	case OpLShr:
		if y >= uint64(w) {
			return 0, true
		}
		return x >> y, true
	case OpAShr:
		sx := sext(x, w)
		if y >= uint64(w) {
			y = uint64(w - 1)
		}
		return uint64(sx>>y) & m, true
	}
	return 0, false
}

func foldCmp(op Op, w int, x, y uint64) bool {
	switch op {
	case OpULt:
		return x < y
	case OpULe:
		return x <= y
	case OpSLt:
		return sext(x, w) < sext(y, w)
	case OpSLe:
		return sext(x, w) <= sext(y, w)
	}
	panic("foldCmp")
}

// Bin builds a bit-vector binary operation.
func (tb *TermTable) Bin(op Op, a, b *Term) *Term {
	if a.Sort != b.Sort || a.Sort.Bool {
		panic(fmt.Sprintf("Bin %v sort mismatch %v %v", opNames[op], a.Sort, b.Sort))
	}
	w := a.Sort.W
	if a.IsConst() && b.IsConst() {
		if v, ok := foldBin(op, w, a.Val, b.Val); ok {
			return tb.Const(w, v)
		}
	}
	switch op {
	case OpAdd:
		if a.IsConst() && a.Val == 0 {
			return b
		}
		if b.IsConst() && b.Val == 0 {
			return a
		}
		// (x + c1) + c2
		if b.IsConst() && a.Op == OpAdd && a.Args[1].IsConst() {
			return tb.Bin(OpAdd, a.Args[0], tb.Const(w, a.Args[1].Val+b.Val))
		}
		if a.IsConst() {
			a, b = b, a
		}
	case OpSub:
		if b.IsConst() && b.Val == 0 {
			return a
		}
		if a == b {
			return tb.Const(w, 0)
		}
		if b.IsConst() {
			return tb.Bin(OpAdd, a, tb.Const(w, -b.Val))
		}
	case OpMul:
		if a.IsConst() {
			a, b = b, a
		}
		if b.IsConst() {
			if b.Val == 0 {
				return b
			}
			if b.Val == 1 {
				return a
			}
			if bits.OnesCount64(b.Val) == 1 {
				return tb.Bin(OpShl, a, tb.Const(w, uint64(bits.TrailingZeros64(b.Val))))
			}
		}
	case OpBAnd:
		if a == b {
			return a
		}
		if a.IsConst() {
			a, b = b, a
		}
		if b.IsConst() {
			if b.Val == 0 {
				return b
			}
			if b.Val == mask(w) {
				return a
			}
			// zext(x) & m where m covers x
			if a.Op == OpZExt && b.Val&mask(a.Args[0].Sort.W) == mask(a.Args[0].Sort.W) {
				return a
			}
			if a.Op == OpBAnd && a.Args[1].IsConst() {
				return tb.Bin(OpBAnd, a.Args[0], tb.Const(w, a.Args[1].Val&b.Val))
			}
		}
	case OpBOr:
		if a == b {
			return a
		}
		if a.IsConst() {
			a, b = b, a
		}
		if b.IsConst() {
			if b.Val == 0 {
				return a
			}
			if b.Val == mask(w) {
				return b
			}
		}
	case OpBXor:
		if a == b {
			return tb.Const(w, 0)
		}
		if a.IsConst() {
			a, b = b, a
		}
		if b.IsConst() && b.Val == 0 {
			return a
		}
	case OpShl, OpLShr, OpAShr:
		if b.IsConst() {
			if b.Val == 0 {
				return a
			}
			if b.Val >= uint64(w) && op != OpAShr {
				return tb.Const(w, 0)
			}
			// lshr of zext: fold into extract
			if op == OpLShr && a.Op == OpZExt && int(b.Val) >= a.Args[0].Sort.W {
				return tb.Const(w, 0)
			}
		}
		if a.IsConst() && a.Val == 0 {
			return a
		}
	case OpUDiv, OpURem:
		if b.IsConst() && b.Val != 0 && bits.OnesCount64(b.Val) == 1 {
			k := uint64(bits.TrailingZeros64(b.Val))
			if op == OpUDiv {
				return tb.Bin(OpLShr, a, tb.Const(w, k))
			}
			return tb.Bin(OpBAnd, a, tb.Const(w, b.Val-1))
		}
	}
	return tb.mk(op, a.Sort, 0, 0, 0, "", a, b)
}

func (tb *TermTable) Cmp(op Op, a, b *Term) *Term {
	if a.Sort != b.Sort || a.Sort.Bool {
		panic(fmt.Sprintf("Cmp %v sort mismatch %v %v", opNames[op], a.Sort, b.Sort))
	}
	if a.IsConst() && b.IsConst() {
		return tb.Bool(foldCmp(op, a.Sort.W, a.Val, b.Val))
	}
	if a == b {
		return tb.Bool(op == OpULe || op == OpSLe)
	}
	w := a.Sort.W
	// range-based folding for zext operands against constants
	if (op == OpULt || op == OpULe || op == OpSLt || op == OpSLe) && (a.IsConst() || b.IsConst()) {
		lo1, hi1, ok1 := tb.urange(a)
		lo2, hi2, ok2 := tb.urange(b)
		if ok1 && ok2 {
			signedOK := hi1 <= mask(w)>>1 && hi2 <= mask(w)>>1
			if op == OpULt || op == OpULe || signedOK {
				strict := op == OpULt || op == OpSLt
				if strict {
					if hi1 < lo2 {
						return tb.tt
					}
					if lo1 >= hi2 {
						return tb.ff
					}
				} else {
					if hi1 <= lo2 {
						return tb.tt
					}
					if lo1 > hi2 {
						return tb.ff
					}
				}
			}
		}
	}
	return tb.mk(op, BoolSort, 0, 0, 0, "", a, b)
}

// urange gives a cheap unsigned range of a term.
func (tb *TermTable) urange(t *Term) (lo, hi uint64, ok bool) {
	switch t.Op {
	case OpConst:
		return t.Val, t.Val, true
	case OpZExt:
		return 0, mask(t.Args[0].Sort.W), true
	case OpBAnd:
		if t.Args[1].IsConst() {
			return 0, t.Args[1].Val, true
		}
	case OpIte:
		l1, h1, ok1 := tb.urange(t.Args[1])
		l2, h2, ok2 := tb.urange(t.Args[2])
		if ok1 && ok2 {
			if l2 < l1 {
				l1 = l2
			}
			if h2 > h1 {
				h1 = h2
			}
			return l1, h1, true
		}
	case OpLShr:
		if t.Args[1].IsConst() && t.Args[1].Val < 64 {
			return 0, mask(t.Sort.W) >> t.Args[1].Val, true
		}
	}
	return 0, mask(t.Sort.W), true
}

func (tb *TermTable) BNot(a *Term) *Term {
	if a.IsConst() {
		return tb.Const(a.Sort.W, ^a.Val)
	}
	if a.Op == OpBNot {
		return a.Args[0]
	}
	return tb.intern(&Term{Op: OpBNot, Sort: a.Sort, Args: []*Term{a}})
}

func (tb *TermTable) Neg(a *Term) *Term {
	if a.IsConst() {
		return tb.Const(a.Sort.W, -a.Val)
	}
	return tb.intern(&Term{Op: OpNeg, Sort: a.Sort, Args: []*Term{a}})
}

func (tb *TermTable) Extract(a *Term, hi, lo int) *Term {
	w := hi - lo + 1
	if lo == 0 && w == a.Sort.W {
		return a
	}
	if a.IsConst() {
		return tb.Const(w, a.Val>>uint(lo))
	}
	if lo == 0 {
		switch a.Op {
		case OpZExt, OpSExt:
			x := a.Args[0]
			if w == x.Sort.W {
				return x
			}
			if w < x.Sort.W {
				return tb.Extract(x, hi, 0)
			}
			if a.Op == OpZExt {
				return tb.ZExt(x, w)
			}
			return tb.SExt(x, w)
		case OpBAnd, OpBOr, OpBXor, OpAdd, OpSub, OpMul:
			// truncation distributes
			return tb.Bin(a.Op, tb.Extract(a.Args[0], hi, 0), tb.Extract(a.Args[1], hi, 0))
		case OpShl:
			if a.Args[1].IsConst() {
				return tb.Bin(OpShl, tb.Extract(a.Args[0], hi, 0), tb.Const(w, a.Args[1].Val))
			}
		case OpIte:
			return tb.Ite(a.Args[0], tb.Extract(a.Args[1], hi, 0), tb.Extract(a.Args[2], hi, 0))
		}
	}
	if a.Op == OpExtract {
		return tb.Extract(a.Args[0], hi+a.B, lo+a.B)
	}
	return tb.intern(&Term{Op: OpExtract, Sort: BV(w), Args: []*Term{a}, A: hi, B: lo})
}

// ZExt extends a to total width w.
func (tb *TermTable) ZExt(a *Term, w int) *Term {
	if w == a.Sort.W {
		return a
	}
	if w < a.Sort.W {
		return tb.Extract(a, w-1, 0)
	}
	if a.IsConst() {
		return tb.Const(w, a.Val)
	}
	if a.Op == OpZExt {
		return tb.ZExt(a.Args[0], w)
	}
	return tb.intern(&Term{Op: OpZExt, Sort: BV(w), Args: []*Term{a}, A: w - a.Sort.W})
}

func (tb *TermTable) SExt(a *Term, w int) *Term {
	if w == a.Sort.W {
		return a
	}
	if w < a.Sort.W {
		return tb.Extract(a, w-1, 0)
	}
	if a.IsConst() {
		return tb.Const(w, uint64(sext(a.Val, a.Sort.W)))
	}
	if a.Op == OpZExt {
		return tb.ZExt(a.Args[0], w)
	}
	return tb.intern(&Term{Op: OpSExt, Sort: BV(w), Args: []*Term{a}, A: w - a.Sort.W})
}

func (tb *TermTable) Concat(hi, lo *Term) *Term {
	w := hi.Sort.W + lo.Sort.W
	if hi.IsConst() && lo.IsConst() {
		return tb.Const(w, hi.Val<<uint(lo.Sort.W)|lo.Val)
	}
	return tb.intern(&Term{Op: OpConcat, Sort: BV(w), Args: []*Term{hi, lo}})
}

// ---- printing ----

func constStr(t *Term) string {
	if t.Sort.Bool {
		if t.Val == 1 {
			return "true"
		}
		return "false"
	}
	if t.Sort.W%4 == 0 {
		return fmt.Sprintf("#x%0*x", t.Sort.W/4, t.Val)
	}
	return fmt.Sprintf("#b%0*b", t.Sort.W, t.Val)
}

func (t *Term) ref() string {
	switch t.Op {
	case OpConst:
		return constStr(t)
	case OpVar:
		return "|" + t.Name + "|"
	}
	return fmt.Sprintf("t%d", t.ID)
}

// body prints the defining expression using refs of args.
func (t *Term) body() string {
	switch t.Op {
	case OpConst, OpVar:
		return t.ref()
	case OpExtract:
		return fmt.Sprintf("((_ extract %d %d) %s)", t.A, t.B, t.Args[0].ref())
	case OpZExt:
		return fmt.Sprintf("((_ zero_extend %d) %s)", t.A, t.Args[0].ref())
	case OpSExt:
		return fmt.Sprintf("((_ sign_extend %d) %s)", t.A, t.Args[0].ref())
	case OpUF:
		if len(t.Args) == 0 {
			return "|" + t.Name + "|"
		}
		var sb strings.Builder
		sb.WriteString("(|" + t.Name + "|")
		for _, a := range t.Args {
			sb.WriteString(" " + a.ref())
		}
		sb.WriteString(")")
		return sb.String()
	}
	var sb strings.Builder
	sb.WriteString("(" + opNames[t.Op])
	for _, a := range t.Args {
		sb.WriteString(" " + a.ref())
	}
	sb.WriteString(")")
	return sb.String()
}

// String prints a fully expanded term (debugging; exponential on DAGs).
func (t *Term) String() string {
	switch t.Op {
	case OpConst:
		if t.Sort.Bool {
			return constStr(t)
		}
		return fmt.Sprintf("%d:%d", t.Val, t.Sort.W)
	case OpVar:
		return t.Name
	case OpExtract:
		return fmt.Sprintf("%s[%d:%d]", t.Args[0], t.A, t.B)
	case OpZExt:
		return fmt.Sprintf("zx%d(%s)", t.Sort.W, t.Args[0])
	case OpSExt:
		return fmt.Sprintf("sx%d(%s)", t.Sort.W, t.Args[0])
	}
	var sb strings.Builder
	name := opNames[t.Op]
	if t.Op == OpUF {
		name = t.Name
	}
	sb.WriteString("(" + name)
	for _, a := range t.Args {
		s := a.String()
		if len(s) > 200 {
			s = s[:200] + "…"
		}
		sb.WriteString(" " + s)
	}
	sb.WriteString(")")
	return sb.String()
}

// ---- evaluation under a model ----

type Model map[string]uint64

type evaluator struct {
	m    Model
	memo map[int]uint64
	uf   map[string]uint64
}

func NewEval(m Model) *evaluator {
	return &evaluator{m: m, memo: map[int]uint64{}, uf: map[string]uint64{}}
}

func (e *evaluator) Eval(t *Term) uint64 {
	if t.Op == OpConst {
		return t.Val
	}
	if v, ok := e.memo[t.ID]; ok {
		return v
	}
	var v uint64
	switch t.Op {
	case OpVar:
		v = e.m[t.Name] & sortMask(t.Sort)
	case OpUF:
		// uninterpreted: consistent arbitrary value (0) per distinct argument tuple read from model if present
		k := t.Name
		for _, a := range t.Args {
			k += fmt.Sprintf(",%d", e.Eval(a))
		}
		if x, ok := e.m["uf:"+k]; ok {
			v = x
		} else {
			v = 0
		}
	case OpNot:
		v = 1 - e.Eval(t.Args[0])
	case OpAnd:
		v = e.Eval(t.Args[0]) & e.Eval(t.Args[1])
	case OpOr:
		v = e.Eval(t.Args[0]) | e.Eval(t.Args[1])
	case OpIte:
		if e.Eval(t.Args[0]) == 1 {
			v = e.Eval(t.Args[1])
		} else {
			v = e.Eval(t.Args[2])
		}
	case OpEq:
		if e.Eval(t.Args[0]) == e.Eval(t.Args[1]) {
			v = 1
		}
	case OpULt, OpULe, OpSLt, OpSLe:
		if foldCmp(t.Op, t.Args[0].Sort.W, e.Eval(t.Args[0]), e.Eval(t.Args[1])) {
			v = 1
		}
	case OpBNot:
		v = ^e.Eval(t.Args[0]) & mask(t.Sort.W)
	case OpNeg:
		v = -e.Eval(t.Args[0]) & mask(t.Sort.W)
	case OpExtract:
		v = (e.Eval(t.Args[0]) >> uint(t.B)) & mask(t.Sort.W)
	case OpZExt:
		v = e.Eval(t.Args[0])
	case OpSExt:
		v = uint64(sext(e.Eval(t.Args[0]), t.Args[0].Sort.W)) & mask(t.Sort.W)
	case OpConcat:
		v = e.Eval(t.Args[0])<<uint(t.Args[1].Sort.W) | e.Eval(t.Args[1])
	default:
		x, ok := foldBin(t.Op, t.Sort.W, e.Eval(t.Args[0]), e.Eval(t.Args[1]))
		if !ok {
			panic("eval: op " + opNames[t.Op])
		}
		v = x
	}
	e.memo[t.ID] = v
	return v
}

func sortMask(s Sort) uint64 {
	if s.Bool {
		return 1
	}
	return mask(s.W)
}

// HasUF reports whether t contains an uninterpreted application.
func HasUF(t *Term, seen map[int]bool) bool {
	if seen[t.ID] {
		return false
	}
	seen[t.ID] = true
	if t.Op == OpUF {
		return true
	}
	for _, a := range t.Args {
		if HasUF(a, seen) {
			return true
		}
	}
	return false
}
