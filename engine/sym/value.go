package sym

import (
	"fmt"
	"go/types"

	"golang.org/x/tools/go/ssa"
)

// Value is a boxed interpreter value:
//
//	*Term            bool and all integer kinds (bit-vector of the Go width)
//	float64/float32  concrete floats; *FSym symbolic float64 (limited)
//	Str              strings (concrete or vector of byte terms)
//	*Value           pointers (Go pointer to a cell); nil pointer = (*Value)(nil)
//	Struct, Array    aggregates (slices of cells)
//	[]Value          slices (nil = nil slice)
//	*Map             maps (nil *Map = nil map)
//	Iface            interfaces
//	*ssa.Function, *ssa.Builtin, *Closure   functions
//	Tuple            multiple results
//	*Chan            channels
//	*SymPtr          address of a[i] with symbolic i over scalar elements
//	UPtr             unsafe.Pointer wrapper
type Value interface{}

type Struct []Value
type Array []Value
type Tuple []Value

type Iface struct {
	T types.Type
	V Value
}

type Closure struct {
	Fn  *ssa.Function
	Env []Value
}

type Str struct {
	S string
	B []*Term // non-nil => symbolic contents, len(B) is the length
}

func (s Str) Len() int {
	if s.B != nil {
		return len(s.B)
	}
	return len(s.S)
}

func (s Str) Concrete() (string, bool) {
	if s.B == nil {
		return s.S, true
	}
	return "", false
}

type SymPtr struct {
	Base []Value
	Idx  *Term // 64-bit index, already known in bounds
}

type UPtr struct{ P Value }

type Map struct {
	KT   types.Type
	Keys []Value
	Vals []Value
}

type Chan struct {
	Cap    int
	Buf    []Value
	Closed bool
	ET     types.Type
	Sent   int
	Taken  int
}

type FSym struct{ T *Term } // 64-bit pattern of a symbolic float64 (opaque; only via UF ops)

type bad struct{}

type deferred struct {
	fn    Value
	args  []Value
	instr *ssa.Defer
	tail  *deferred
}

func intInfo(t types.Type) (w int, signed bool, ok bool) {
	b, isb := t.Underlying().(*types.Basic)
	if !isb {
		return 0, false, false
	}
	switch b.Kind() {
	case types.Int8:
		return 8, true, true
	case types.Int16:
		return 16, true, true
	case types.Int32:
		return 32, true, true
	case types.Int64, types.Int, types.UntypedInt, types.UntypedRune:
		return 64, true, true
	case types.Uint8:
		return 8, false, true
	case types.Uint16:
		return 16, false, true
	case types.Uint32:
		return 32, false, true
	case types.Uint64, types.Uint, types.Uintptr:
		return 64, false, true
	}
	return 0, false, false
}

func isBoolType(t types.Type) bool {
	b, ok := t.Underlying().(*types.Basic)
	return ok && b.Info()&types.IsBoolean != 0
}

func isStringType(t types.Type) bool {
	b, ok := t.Underlying().(*types.Basic)
	return ok && b.Info()&types.IsString != 0
}

func isFloatType(t types.Type) bool {
	b, ok := t.Underlying().(*types.Basic)
	return ok && b.Info()&types.IsFloat != 0
}

func (m *Machine) zero(t types.Type) Value {
	switch t := t.(type) {
	case *types.Basic:
		if t.Kind() == types.UntypedNil {
			panic("untyped nil has no zero value")
		}
		if t.Info()&types.IsUntyped != 0 {
			t = types.Default(t).(*types.Basic)
		}
		switch t.Kind() {
		case types.Bool:
			return m.tb.False()
		case types.Float32:
			return float32(0)
		case types.Float64:
			return float64(0)
		case types.Complex64:
			return complex64(0)
		case types.Complex128:
			return complex128(0)
		case types.String:
			return Str{}
		case types.UnsafePointer:
			return UPtr{}
		}
		if w, _, ok := intInfo(t); ok {
			return m.tb.Const(w, 0)
		}
		panic(fmt.Sprint("zero for unexpected type:", t))
	case *types.Pointer:
		return (*Value)(nil)
	case *types.Array:
		a := make(Array, t.Len())
		for i := range a {
			a[i] = m.zero(t.Elem())
		}
		return a
	case *types.Named:
		return m.zero(t.Underlying())
	case *types.Alias:
		return m.zero(types.Unalias(t))
	case *types.Interface:
		return Iface{}
	case *types.Slice:
		return []Value(nil)
	case *types.Struct:
		s := make(Struct, t.NumFields())
		for i := range s {
			s[i] = m.zero(t.Field(i).Type())
		}
		return s
	case *types.Tuple:
		if t.Len() == 1 {
			return m.zero(t.At(0).Type())
		}
		s := make(Tuple, t.Len())
		for i := range s {
			s[i] = m.zero(t.At(i).Type())
		}
		return s
	case *types.Chan:
		return (*Chan)(nil)
	case *types.Map:
		return (*Map)(nil)
	case *types.Signature:
		return (*ssa.Function)(nil)
	case *types.TypeParam:
		panic("zero of type parameter")
	}
	panic(fmt.Sprint("zero: unexpected ", t))
}

// copyVal returns a copy of v with value semantics (aggregates are deep-copied).
func copyVal(v Value) Value {
	switch v := v.(type) {
	case Struct:
		a := make(Struct, len(v))
		for i, x := range v {
			a[i] = copyVal(x)
		}
		return a
	case Array:
		a := make(Array, len(v))
		for i, x := range v {
			a[i] = copyVal(x)
		}
		return a
	case Tuple:
		return v
	}
	return v
}

// store writes v into *addr preserving the identity of aggregate cells.
func store(addr *Value, v Value) {
	switch v := v.(type) {
	case Struct:
		if lhs, ok := (*addr).(Struct); ok && len(lhs) == len(v) {
			for i := range lhs {
				store(&lhs[i], v[i])
			}
			return
		}
		*addr = copyVal(v)
	case Array:
		if lhs, ok := (*addr).(Array); ok && len(lhs) == len(v) {
			for i := range lhs {
				store(&lhs[i], v[i])
			}
			return
		}
		*addr = copyVal(v)
	default:
		*addr = v
	}
}

func load(addr *Value) Value { return copyVal(*addr) }

// typeString for diagnostics
func valKind(v Value) string { return fmt.Sprintf("%T", v) }
