package sym

import "go/types"

// Clock model: a monotonic nanosecond counter, symbolic and non-decreasing.
// time.Now() returns a Time with the monotonic bit set, so Sub/Since/After/Before
// compare the monotonic readings (plain 64-bit subtraction, no multiplication).

const hasMonotonic = uint64(1) << 63

// concrete clock (check option clock_mode=concrete): time starts at a fixed instant and
// advances 1 ms per reading plus whatever symapi.AdvanceClock adds.
func (m *Machine) concreteNowNs() uint64 {
	n, _ := m.side["clock.concrete"].(uint64)
	n += 1_000_000
	m.side["clock.concrete"] = n
	return n
}

func (m *Machine) clockRead() *Term {
	if m.out == nil { // package initialisation
		return m.tb.Const(64, 1)
	}
	if m.P.ConcreteClock {
		return m.tb.Const(64, m.concreteNowNs())
	}
	v := m.newEnvVar("clock", BV(64))
	m.envVars = append(m.envVars, v)
	prev, _ := m.side["clock.prev"].(*Term)
	if prev == nil {
		prev = m.tb.Const(64, 1)
	}
	// 1 <= prev <= v <= 2^61 (no overflow in differences). The variable is fresh, so the
	// constraints are satisfiable whenever the pc is: extend the model instead of asking.
	if m.model != nil {
		pv := uint64(1)
		if x, ok := m.evalUnderModelNoSolve(prev); ok {
			pv = x
		}
		md := make(Model, len(m.model)+1)
		for k, x := range m.model {
			md[k] = x
		}
		md[v.Name] = pv
		m.setModel(md)
	}
	m.addPC(m.tb.Cmp(OpSLe, prev, v))
	m.addPC(m.tb.Cmp(OpSLe, v, m.tb.Const(64, 1<<61)))
	m.side["clock.prev"] = v
	return v
}

func registerTimeIntrinsics(P *Program) {
	in := P.intrinsics
	in["time.Now"] = func(fr *frame, args []Value) Value {
		m := fr.m
		clk := m.clockRead()
		// wall clock: symbolic seconds (33-bit field, non-decreasing), nsec 0, monotonic bit set
		var sec *Term
		if m.out == nil {
			sec = m.tb.Const(64, 4_400_000_000)
		} else if m.P.ConcreteClock {
			n, _ := m.side["clock.concrete"].(uint64)
			sec = m.tb.Const(64, 4_400_000_000+n/1_000_000_000)
		} else {
			sec = m.newEnvVar("wallsec", BV(64))
			m.envVars = append(m.envVars, sec)
			prev, _ := m.side["wallsec.prev"].(*Term)
			if prev == nil {
				prev = m.tb.Const(64, 4_300_000_000) // ~2021 in seconds since 1885
			}
			if m.model != nil {
				pv := uint64(4_300_000_000)
				if x, ok := m.evalUnderModelNoSolve(prev); ok {
					pv = x
				}
				md := make(Model, len(m.model)+1)
				for k, x := range m.model {
					md[k] = x
				}
				md[sec.Name] = pv
				m.setModel(md)
			}
			m.addPC(m.tb.Cmp(OpULe, prev, sec))
			m.addPC(m.tb.Cmp(OpULe, sec, m.tb.Const(64, 5_000_000_000)))
			m.side["wallsec.prev"] = sec
		}
		wall := m.tb.Bin(OpBOr, m.tb.Const(64, hasMonotonic), m.tb.Bin(OpShl, sec, m.tb.Const(64, 30)))
		var loc Value = (*Value)(nil)
		return Struct{wall, clk, loc}
	}
	in["time.runtimeNano"] = func(fr *frame, args []Value) Value {
		return fr.m.clockRead()
	}
	in["time.now"] = func(fr *frame, args []Value) Value {
		m := fr.m
		clk := m.clockRead()
		return Tuple{m.tb.Const(64, 1700000000), m.tb.Const(32, 0), clk}
	}
	// time.AfterFunc: the timer may fire at any later moment - with the symbolic scheduler the
	// function runs on its own thread (every interleaving of the firing is explored); in a
	// sequential harness it never fires. Stop / Reset report an active timer.
	in["time.AfterFunc"] = func(fr *frame, args []Value) Value {
		m := fr.m
		if m.threads != nil {
			m.spawn(args[1], nil, m.curPos)
		}
		tp := m.P.Pkgs["time"]
		var cell Value = m.zero(tp.Type("Timer").Object().Type())
		return &cell
	}
	in["(*time.Timer).Stop"] = func(fr *frame, args []Value) Value { return fr.m.tb.True() }
	in["(*time.Timer).Reset"] = func(fr *frame, args []Value) Value { return fr.m.tb.True() }
	in["time.Sleep"] = func(fr *frame, args []Value) Value {
		fr.m.yield("time.Sleep")
		return nil
	}
	_ = types.Typ
}
