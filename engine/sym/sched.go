package sym

import (
	"fmt"
	"go/token"
	"sync"
)

// Cooperative scheduler: every interpreted thread is a real goroutine, exactly one of
// which runs at any time. A context switch can happen only at a visible operation
// (sync/atomic/sync.Map/Cond/Pool/channel model calls, configured field accesses,
// hook points, symapi.Yield). Which thread runs next is a recorded decision ('s'),
// so all interleavings at that granularity are explored by re-execution.

type thread struct {
	id       int
	wake     chan bool
	done     bool
	blocked  bool
	cond     func() bool
	why      string
	condWait bool
	quiesce  bool
	fn       Value
	args     []Value
	pos      token.Pos
	depth    int
	curPos   token.Pos
	started  bool
}

type sched struct {
	threads  []*thread
	schedule []int
	preempts int
	wg       sync.WaitGroup
	finished chan struct{}
	result   interface{} // nil or the internal/target panic that ended the path
	ended    bool
	settling bool // deterministic scheduling (lowest id first), no decisions recorded
}

func (m *Machine) runThreaded(h *HarnessSpec) {
	s := &sched{finished: make(chan struct{})}
	m.threads = s
	main := &thread{id: 0, wake: make(chan bool, 1), fn: h.Fn}
	s.threads = append(s.threads, main)
	s.wg.Add(1)
	go s.run(m, main)
	main.wake <- true
	<-s.finished
	if s.result != nil {
		panic(s.result)
	}
}

func (s *sched) run(m *Machine, t *thread) {
	defer s.wg.Done()
	if !<-t.wake {
		return
	}
	t.started = true
	defer func() {
		p := recover()
		if _, ok := p.(threadKill); ok {
			return
		}
		s.threadEnded(m, t, p)
	}()
	m.curThread = t
	m.depth = 0
	m.call(nil, t.pos, t.fn, t.args)
}

func (s *sched) endPath(p interface{}) {
	if s.ended {
		return
	}
	s.ended = true
	s.result = p
	close(s.finished)
}

// threadEnded runs on t's goroutine when its function returned (p == nil) or it
// raised an engine-internal / uncaught target panic.
func (s *sched) threadEnded(m *Machine, t *thread, p interface{}) {
	t.done = true
	if p != nil {
		if tp, ok := p.(targetPanic); ok && t.id != 0 {
			tp.msg = fmt.Sprintf("goroutine %d: %s", t.id, tp.msg)
			p = tp
		}
		s.endPath(p)
		return
	}
	if t.id == 0 {
		s.endPath(nil)
		return
	}
	// pick someone else to run
	func() {
		defer func() {
			if q := recover(); q != nil {
				if _, ok := q.(threadKill); ok {
					return
				}
				s.endPath(q)
			}
		}()
		next := s.pickNext(m, t, false)
		if next == nil {
			return
		}
		s.resume(m, next)
	}()
}

func (s *sched) enabled(t *thread) bool {
	if t.done || t.quiesce {
		return false
	}
	if t.blocked {
		return t.cond != nil && t.cond()
	}
	return true
}

func (s *sched) resume(m *Machine, to *thread) {
	m.curThread = to
	m.depth = to.depth
	m.curPos = to.curPos
	to.blocked = false
	to.cond = nil
	to.wake <- true
}

func (s *sched) park(m *Machine, me *thread) {
	me.depth = m.depth
	me.curPos = m.curPos
}

func (s *sched) await(m *Machine, me *thread) {
	if !<-me.wake {
		panic(threadKill{})
	}
	m.curThread = me
	m.depth = me.depth
	m.curPos = me.curPos
}

// pickNext chooses the next thread among the enabled ones other than cur (cur is
// included as option 0 when includeCur). Returns nil when the path has ended.
func (s *sched) pickNext(m *Machine, cur *thread, includeCur bool) *thread {
	var opts []*thread
	if includeCur {
		opts = append(opts, cur)
	}
	for _, t := range s.threads {
		if t != cur && s.enabled(t) {
			opts = append(opts, t)
		}
	}
	if len(opts) == 0 {
		// nobody can run: a quiescing thread (if any) observes the stuck state
		for _, t := range s.threads {
			if t.quiesce && !t.done {
				t.quiesce = false
				return t
			}
		}
		// global deadlock
		var who string
		for _, t := range s.threads {
			if !t.done {
				who += fmt.Sprintf(" T%d:%s", t.id, t.why)
			}
		}
		m.violation("deadlock", "deadlock", "all threads blocked:"+who, m.model)
		panic(pathEnd{"violation"})
	}
	if s.settling {
		return opts[0]
	}
	c := m.choose(len(opts), 's')
	s.schedule = append(s.schedule, opts[c].id)
	return opts[c]
}

func (s *sched) yield(m *Machine, why string) {
	me := m.curThread
	if me == nil {
		return
	}
	others := 0
	for _, t := range s.threads {
		if t != me && s.enabled(t) {
			others++
		}
	}
	if others == 0 {
		return
	}
	if s.settling || s.preempts >= m.P.MaxPreempt {
		return
	}
	next := s.pickNext(m, me, true)
	if next == me {
		return
	}
	s.preempts++
	s.park(m, me)
	s.resume(m, next)
	s.await(m, me)
}

// block parks the current thread until it is resumed; the caller re-checks its condition.
func (s *sched) blockOn(m *Machine, cond func() bool, why string) {
	me := m.curThread
	me.blocked = true
	me.cond = cond
	me.why = why
	s.park(m, me)
	next := s.pickNext(m, me, false)
	if next == me {
		// quiesce wake-up of myself
		me.blocked = false
		return
	}
	s.resume(m, next)
	s.await(m, me)
}

func (s *sched) block(m *Machine, why string) {
	// generic block: re-evaluated by the caller's loop; enabled whenever scheduled
	m.unsupported("block without condition: %s", why)
}

func (s *sched) spawn(m *Machine, fn Value, args []Value, pos token.Pos) {
	t := &thread{id: len(s.threads), wake: make(chan bool, 1), fn: fn, args: args, pos: pos}
	if len(s.threads) >= m.P.MaxThreads {
		m.unsupported("more than %d threads", m.P.MaxThreads)
	}
	s.threads = append(s.threads, t)
	s.wg.Add(1)
	go s.run(m, t)
	s.yield(m, "go")
}

// quiesce blocks the caller until no other thread can run; returns the number of
// threads that are still alive (blocked forever).
func (s *sched) quiesceWait(m *Machine) int {
	me := m.curThread
	for {
		any := false
		for _, t := range s.threads {
			if t != me && s.enabled(t) {
				any = true
			}
		}
		if !any {
			break
		}
		me.quiesce = true
		me.why = "quiesce"
		s.park(m, me)
		next := s.pickNext(m, me, false)
		if next == me {
			continue
		}
		s.resume(m, next)
		s.await(m, me)
		me.quiesce = false
	}
	n := 0
	for _, t := range s.threads {
		if t != me && !t.done {
			n++
		}
	}
	return n
}

func (s *sched) killAll() {
	for _, t := range s.threads {
		select {
		case t.wake <- false:
		default:
		}
	}
	s.wg.Wait()
}

func (s *sched) wakeAll() {}

// ---- channels with threads ----

func (s *sched) chanSend(m *Machine, c *Chan, v Value) {
	s.yield(m, "chan send")
	if c == nil {
		m.waitUntil(func() bool { return false }, "send on nil chan")
	}
	if c.Closed {
		m.runtimePanic("send on closed channel")
	}
	capp := c.Cap
	if capp == 0 {
		capp = 1
	}
	m.waitUntil(func() bool { return len(c.Buf) < capp || c.Closed }, "chan send")
	if c.Closed {
		m.runtimePanic("send on closed channel")
	}
	c.Buf = append(c.Buf, copyVal(v))
	if c.Cap == 0 {
		ticket := c.Sent
		c.Sent++
		m.waitUntil(func() bool { return c.Taken > ticket }, "chan send (rendezvous)")
	} else {
		c.Sent++
	}
}

func (s *sched) chanRecv(m *Machine, c *Chan, commaOk bool) Value {
	s.yield(m, "chan recv")
	if c == nil {
		m.waitUntil(func() bool { return false }, "recv on nil chan")
	}
	m.waitUntil(func() bool { return len(c.Buf) > 0 || c.Closed }, "chan recv")
	if len(c.Buf) > 0 {
		v := c.Buf[0]
		c.Buf = c.Buf[1:]
		c.Taken++
		if commaOk {
			return Tuple{v, m.tb.True()}
		}
		return v
	}
	z := m.zero(c.ET)
	if commaOk {
		return Tuple{z, m.tb.False()}
	}
	return z
}

func (s *sched) hasSender(c *Chan) bool   { return false }
func (s *sched) hasReceiver(c *Chan) bool { return false }
