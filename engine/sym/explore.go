package sym

import (
	"fmt"
	"os"
	"sort"

	"golang.org/x/tools/go/ssa"
)

// ---- path condition, model, decisions ----

func (m *Machine) hasUF(t *Term) bool {
	if len(m.tb.UFs) == 0 {
		return false
	}
	if v, ok := m.ufCache[t.ID]; ok {
		return v
	}
	v := HasUF(t, map[int]bool{})
	m.ufCache[t.ID] = v
	return v
}

func (m *Machine) addPC(c *Term) {
	if c.IsTrue() {
		return
	}
	if m.pcSet[c.ID] {
		return
	}
	m.pc = append(m.pc, c)
	m.pcSet[c.ID] = true
	m.noteConstraint(c)
	if m.model != nil {
		if m.hasUF(c) || m.ev.Eval(c) != 1 {
			m.setModel(nil)
		}
	}
}

func (m *Machine) setModel(md Model) {
	m.model = md
	if md != nil {
		m.ev = NewEval(md)
	} else {
		m.ev = nil
	}
}

// ensureModel makes sure a model of the current pc is available; returns false if unknown.
func (m *Machine) ensureModel() bool {
	if m.model != nil {
		return true
	}
	res, md := m.solver.Check(m.pc, nil, true)
	switch res {
	case Sat:
		m.setModel(md)
		// verify: guards against get-value parse problems
		for _, c := range m.pc {
			if !m.hasUF(c) && m.ev.Eval(c) != 1 {
				m.setModel(nil)
				m.notes = append(m.notes, "model did not validate against pc")
				return false
			}
		}
		return true
	case Unsat:
		panic(pathEnd{"infeasible"})
	}
	return false
}

// evalUnderModel returns (value, true) if t can be evaluated under the current model.
func (m *Machine) evalUnderModel(t *Term) (uint64, bool) {
	if m.hasUF(t) {
		return 0, false
	}
	if m.model == nil {
		anyUF := false
		for _, c := range m.pc {
			if m.hasUF(c) {
				anyUF = true
				break
			}
		}
		if anyUF || !m.ensureModel() {
			return 0, false
		}
	}
	return m.ev.Eval(t), true
}

func (m *Machine) checkWith(extra ...*Term) (Result, Model) {
	return m.solver.Check(m.pc, extra, true)
}

var debugDecisions = os.Getenv("GOSYM_DEBUG_DECISIONS") != ""

func (m *Machine) pushWork(dec Decision, md Model) {
	if debugDecisions {
		m.decPos = append(m.decPos, fmt.Sprintf("%c@%s", dec.Kind, m.posStr(m.curPos)))
	}
	d := make([]Decision, len(m.trace)+1)
	copy(d, m.trace)
	d[len(m.trace)] = dec
	m.newWork = append(m.newWork, WorkItem{Dec: d, Model: md})
}

func (m *Machine) checkDecisionBudget() {
	if len(m.trace) > m.P.MaxDecisions {
		panic(engineErr{fmt.Sprintf("decision depth limit %d exceeded (unwinding bound)", m.P.MaxDecisions)})
	}
}

// branch decides a boolean condition, forking when both sides are feasible.
func (m *Machine) branch(c *Term) bool {
	if c.IsConst() {
		return c.Val == 1
	}
	if m.pcSet[c.ID] {
		return true
	}
	nc := m.tb.Not(c)
	if m.pcSet[nc.ID] {
		return false
	}
	if m.di < len(m.prefix) {
		d := m.prefix[m.di]
		m.di++
		if d.Kind != 'b' {
			panic(engineErr{fmt.Sprintf("replay divergence: expected %c decision, got branch at %s", d.Kind, m.posStr(m.curPos))})
		}
		m.trace = append(m.trace, d)
		if d.Choice == 1 {
			m.addPC(c)
			return true
		}
		m.addPC(nc)
		return false
	}
	m.checkDecisionBudget()
	if r, dv, vi, T, F := m.domDecide(c); r >= 0 {
		switch {
		case r == 1:
			m.DomDecided++
			m.trace = append(m.trace, Decision{'b', 1})
			m.addPC(c)
			return true
		case r == 0:
			m.DomDecided++
			m.trace = append(m.trace, Decision{'b', 0})
			m.addPC(nc)
			return false
		case !vi.entangled:
			// both sides feasible, exactly: no solver needed
			m.DomDecided++
			side := uint64(1)
			if m.model != nil {
				if !T.has(m.model[dv.Name] & mask(dv.Sort.W)) {
					side = 0
				}
			}
			if side == 1 {
				m.pushWork(Decision{'b', 0}, m.patchedModel(dv, F))
				m.trace = append(m.trace, Decision{'b', 1})
				m.addPC(c)
				return true
			}
			m.pushWork(Decision{'b', 1}, m.patchedModel(dv, T))
			m.trace = append(m.trace, Decision{'b', 0})
			m.addPC(nc)
			return false
		}
	}
	if v, ok := m.evalUnderModel(c); ok {
		// the side taken by the model is feasible for free; ask only about the other side
		other := nc
		if v == 0 {
			other = c
		}
		res, md := m.checkWith(other)
		if res != Unsat {
			if res == Unknown {
				m.noteUnknown("feasibility")
				md = nil
			}
			m.pushWork(Decision{'b', 1 - v}, md)
		}
		m.trace = append(m.trace, Decision{'b', v})
		if v == 1 {
			m.addPC(c)
			return true
		}
		m.addPC(nc)
		return false
	}
	// no model: ask about both sides
	r1, m1 := m.checkWith(c)
	r2, m2 := m.checkWith(nc)
	if r1 == Unknown {
		m.noteUnknown("feasibility")
		m1 = nil
	}
	if r2 == Unknown {
		m.noteUnknown("feasibility")
		m2 = nil
	}
	switch {
	case r1 == Unsat && r2 == Unsat:
		panic(pathEnd{"infeasible"})
	case r1 == Unsat:
		m.trace = append(m.trace, Decision{'b', 0})
		m.addPC(nc)
		m.setModel(m2)
		return false
	case r2 == Unsat:
		m.trace = append(m.trace, Decision{'b', 1})
		m.addPC(c)
		m.setModel(m1)
		return true
	}
	m.pushWork(Decision{'b', 0}, m2)
	m.trace = append(m.trace, Decision{'b', 1})
	m.addPC(c)
	m.setModel(m1)
	return true
}

func (m *Machine) noteUnknown(what string) {
	m.out.Status = "inconclusive"
	if m.out.Reason == "" {
		m.out.Reason = "solver unknown on " + what + " query at " + m.posStr(m.curPos)
	}
}

// concretize forks over all feasible values of t (bounded) and returns the one of this path.
func (m *Machine) concretize(t *Term, what string) uint64 {
	if t.IsConst() {
		return t.Val
	}
	if m.di < len(m.prefix) {
		d := m.prefix[m.di]
		m.di++
		if d.Kind != 'c' {
			panic(engineErr{fmt.Sprintf("replay divergence: expected %c decision, got concretize(%s) at %s", d.Kind, what, m.posStr(m.curPos))})
		}
		m.trace = append(m.trace, d)
		m.addPC(m.tb.Eq(t, m.tb.Const(t.Sort.W, d.Choice)))
		return d.Choice
	}
	m.checkDecisionBudget()
	var first uint64
	var firstModel Model
	if v, ok := m.evalUnderModel(t); ok {
		first = v
		firstModel = m.model
	} else {
		res, md := m.checkWith()
		if res == Unsat {
			panic(pathEnd{"infeasible"})
		}
		if res == Unknown {
			m.noteUnknown("concretize")
			panic(pathEnd{"unknown"})
		}
		m.setModel(md)
		first = m.ev.Eval(t)
		firstModel = md
	}
	_ = firstModel
	excl := []*Term{m.tb.Not(m.tb.Eq(t, m.tb.Const(t.Sort.W, first)))}
	n := 1
	for {
		res, md := m.checkWith(excl...)
		if res == Unsat {
			break
		}
		if res == Unknown {
			m.noteUnknown("concretize(" + what + ")")
			break
		}
		v := NewEval(md).Eval(t)
		m.pushWork(Decision{'c', v}, md)
		excl = append(excl, m.tb.Not(m.tb.Eq(t, m.tb.Const(t.Sort.W, v))))
		n++
		if n > m.P.MaxConcretize {
			panic(engineErr{fmt.Sprintf("concretize(%s): more than %d feasible values at %s", what, m.P.MaxConcretize, m.posStr(m.curPos))})
		}
	}
	m.trace = append(m.trace, Decision{'c', first})
	m.addPC(m.tb.Eq(t, m.tb.Const(t.Sort.W, first)))
	return first
}

// checkAllocLimit: inside symapi.NoLargeAlloc a make() whose length can exceed the limit
// is a violation (label "alloc-limit").
func (m *Machine) checkAllocLimit(n *Term, signed bool, elemSize int) {
	if m.allocLimit <= 0 {
		return
	}
	lim := m.tb.Const(n.Sort.W, uint64(m.allocLimit/elemSize))
	var big *Term
	if signed {
		big = m.tb.Cmp(OpSLt, lim, n)
	} else {
		big = m.tb.Cmp(OpULt, lim, n)
	}
	if m.branch(big) {
		m.ensureModelSafe()
		m.violation("assert", "alloc-limit", "allocation length can exceed the limit", m.model)
		panic(pathEnd{"violation"})
	}
}

// concretizeAlloc concretizes an allocation length: every value up to AllocEnumMax is
// explored; larger lengths are explored at one representative value chosen by the solver
// (recorded as a note; stated in the bounds of the check).
func (m *Machine) concretizeAlloc(t *Term, signed bool, what string) int64 {
	if t.IsConst() {
		if signed {
			return sext(t.Val, t.Sort.W)
		}
		return int64(t.Val)
	}
	T := m.tb.Const(t.Sort.W, uint64(m.P.AllocEnumMax))
	if signed {
		neg := m.tb.Cmp(OpSLt, t, m.tb.Const(t.Sort.W, 0))
		if m.branch(neg) {
			return -1
		}
	}
	if m.branch(m.tb.Cmp(OpULe, t, T)) {
		return int64(m.concretize(t, what))
	}
	// representative
	if m.di < len(m.prefix) {
		d := m.prefix[m.di]
		m.di++
		if d.Kind != 'c' {
			panic(engineErr{"replay divergence at representative length"})
		}
		m.trace = append(m.trace, d)
		m.addPC(m.tb.Eq(t, m.tb.Const(t.Sort.W, d.Choice)))
		return int64(d.Choice)
	}
	v, ok := m.evalUnderModel(t)
	if !ok {
		res, md := m.checkWith()
		if res != Sat {
			m.noteUnknown("representative length")
			panic(pathEnd{"unknown"})
		}
		m.setModel(md)
		v = m.ev.Eval(t)
	}
	m.trace = append(m.trace, Decision{'c', v})
	m.addPC(m.tb.Eq(t, m.tb.Const(t.Sort.W, v)))
	m.notes = append(m.notes, fmt.Sprintf("length > %d explored at one representative value (%s)", m.P.AllocEnumMax, what))
	return int64(v)
}

func (m *Machine) concretizeInt(t *Term, signed bool, what string) int64 {
	v := m.concretize(t, what)
	if signed {
		return sext(v, t.Sort.W)
	}
	return int64(v)
}

// choose forks n ways without constraints.
func (m *Machine) choose(n int, kind byte) int {
	if n <= 1 {
		return 0
	}
	if m.di < len(m.prefix) {
		d := m.prefix[m.di]
		m.di++
		if d.Kind != kind {
			panic(engineErr{fmt.Sprintf("replay divergence: expected %c decision, got %c", d.Kind, kind)})
		}
		m.trace = append(m.trace, d)
		return int(d.Choice)
	}
	m.checkDecisionBudget()
	for i := n - 1; i >= 1; i-- {
		m.pushWork(Decision{kind, uint64(i)}, m.model)
	}
	m.trace = append(m.trace, Decision{kind, 0})
	return 0
}

// ---- obligations ----

func (m *Machine) tapeVals(md Model) []TapeVal {
	ev := NewEval(md)
	var out []TapeVal
	for _, e := range m.tape {
		v := e.Val
		if e.T != nil {
			v = ev.Eval(e.T)
		}
		out = append(out, TapeVal{e.Name, v})
	}
	return out
}

func (m *Machine) violation(kind, label, msg string, md Model) {
	if md == nil {
		md = Model{}
	}
	v := Violation{Harness: m.harness, Label: label, Kind: kind, Msg: msg, Pos: m.posStr(m.curPos), Tape: m.tapeVals(md), Model: md}
	if m.threads != nil {
		v.Sched = append([]int(nil), m.threads.schedule...)
	}
	m.out.Violations = append(m.out.Violations, v)
	if m.out.Status != "inconclusive" {
		m.out.Status = "violation"
	}
}

func (m *Machine) assert(c *Term, label string) {
	if c.IsTrue() {
		m.out.Trivial++
		return
	}
	if m.pcSet[c.ID] {
		m.out.Trivial++
		return
	}
	nc := m.tb.Not(c)
	if c.IsFalse() {
		m.ensureModel()
		m.violation("assert", label, "assertion is false on this path", m.model)
		panic(pathEnd{"violation"})
	}
	if v, ok := m.evalUnderModelNoSolve(c); ok && v == 0 {
		m.violation("assert", label, "assertion fails", m.model)
		panic(pathEnd{"violation"})
	}
	if r, _, _, _, _ := m.domDecide(c); r == 1 {
		m.out.Obligations++
		m.addPC(c)
		return
	}
	res, md := m.checkWith(nc)
	switch res {
	case Sat:
		// validate the model on the assertion (guards the get-value parser)
		m.violation("assert", label, "assertion fails", md)
		panic(pathEnd{"violation"})
	case Unsat:
		m.out.Obligations++
		if len(m.out.Samples) < 3 {
			m.out.Samples = append(m.out.Samples, fmt.Sprintf("%s: assert %q @%s unsat", m.harness, label, m.posStr(m.curPos)))
		}
		m.addPC(c)
	case Unknown:
		m.noteUnknown("assert " + label)
		m.addPC(c)
	}
}

// possible: violation iff pc && c is unsatisfiable.
func (m *Machine) possible(c *Term, label string) {
	if c.IsTrue() {
		m.out.Trivial++
		return
	}
	if c.IsFalse() {
		m.ensureModel()
		m.violation("possible", label, "the condition holds for no value of the environment's choices on this path", m.model)
		panic(pathEnd{"violation"})
	}
	if v, ok := m.evalUnderModelNoSolve(c); ok && v == 1 {
		m.out.Trivial++
		return
	}
	res, _ := m.checkWith(c)
	switch res {
	case Sat:
		m.out.Obligations++
	case Unsat:
		m.ensureModel()
		m.violation("possible", label, "the condition holds for no value of the environment's choices on this path", m.model)
		panic(pathEnd{"violation"})
	case Unknown:
		m.noteUnknown("possible " + label)
	}
}

func (m *Machine) evalUnderModelNoSolve(t *Term) (uint64, bool) {
	if m.model == nil || m.hasUF(t) {
		return 0, false
	}
	return m.ev.Eval(t), true
}

func (m *Machine) assume(c *Term) {
	if c.IsTrue() {
		return
	}
	if c.IsFalse() {
		panic(pathEnd{"assume-false"})
	}
	if v, ok := m.evalUnderModelNoSolve(c); ok && v == 1 {
		m.addPC(c)
		return
	}
	if r, dv, vi, T, _ := m.domDecide(c); r >= 0 {
		switch {
		case r == 1:
			m.addPC(c)
			return
		case r == 0:
			panic(pathEnd{"assume-false"})
		case !vi.entangled:
			md := m.patchedModel(dv, T)
			m.setModel(md)
			m.addPC(c)
			return
		}
	}
	res, md := m.checkWith(c)
	switch res {
	case Unsat:
		panic(pathEnd{"assume-false"})
	case Unknown:
		m.noteUnknown("assume")
		m.addPC(c)
		m.setModel(nil)
	case Sat:
		m.addPC(c)
		m.setModel(md)
	}
}

// ---- running one path ----

func (m *Machine) resetPath(h *HarnessSpec, item WorkItem) {
	m.harness = h.Name
	m.pc = m.pc[:0]
	m.pcSet = map[int]bool{}
	m.prefix = item.Dec
	m.di = 0
	m.trace = nil
	m.globals = map[*ssa.Global]*Value{}
	m.inited = map[*ssa.Package]bool{}
	m.tape = nil
	m.steps = 0
	m.varCount = map[string]int{}
	m.reached = map[string]bool{}
	m.spawned = nil
	m.side = map[interface{}]interface{}{}
	m.out = &PathOutcome{Status: "ok"}
	m.newWork = nil
	m.ufCache = map[int]bool{}
	m.depth = 0
	m.params = h.Params
	m.notes = nil
	m.envVars = nil
	m.decPos = nil
	m.allocLimit = 0
	m.vinfo = map[int]*varInfo{}
	m.threads = nil
	m.curThread = nil
	m.setModel(item.Model)
}

// RunPath executes the harness along the decision prefix of item.
func (m *Machine) RunPath(h *HarnessSpec, item WorkItem) (*PathOutcome, []WorkItem) {
	m.resetPath(h, item)
	func() {
		defer func() {
			p := recover()
			if p == nil {
				return
			}
			switch p := p.(type) {
			case pathEnd:
				switch p.reason {
				case "infeasible", "assume-false":
					if m.out.Status == "ok" {
						m.out.Status = "infeasible"
						m.out.Reason = p.reason
					}
				}
			case engineErr:
				m.out.Status = "inconclusive"
				m.out.Reason = p.msg
			case targetPanic:
				// uncaught panic of the interpreted program
				if m.model == nil {
					m.ensureModelSafe()
				}
				m.curPos = p.pos
				m.violation("panic", "uncaught-panic", p.msg, m.model)
			default:
				m.out.Status = "inconclusive"
				m.out.Reason = fmt.Sprintf("engine fault: %v", p)
			}
		}()
		if m.P.Threaded[h.Name] || h.Threads {
			m.runThreaded(h)
		} else {
			m.call(nil, 0, h.Fn, nil)
		}
	}()
	if m.threads != nil {
		m.threads.killAll()
	}
	if debugDecisions && len(m.decPos) > 0 {
		fmt.Fprintf(os.Stderr, "DECISIONS %v\n", m.decPos)
	}
	m.out.Steps = m.steps
	m.out.Decisions = len(m.trace)
	for l := range m.reached {
		m.out.Reached = append(m.out.Reached, l)
	}
	sort.Strings(m.out.Reached)
	if m.di < len(m.prefix) && m.out.Status == "ok" {
		m.out.Status = "inconclusive"
		m.out.Reason = "replay ended before prefix was consumed"
	}
	return m.out, m.newWork
}

func (m *Machine) ensureModelSafe() {
	defer func() {
		if p := recover(); p != nil {
			if _, ok := p.(pathEnd); ok {
				return
			}
			panic(p)
		}
	}()
	m.ensureModel()
}
