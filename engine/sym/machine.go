package sym

import (
	"fmt"
	"go/token"
	"go/types"
	"os"
	"slices"
	"strings"

	"golang.org/x/tools/go/ssa"
)

// ---- engine-internal control flow (Go panics that interpreted code can never catch) ----

type pathEnd struct{ reason string } // path finished early (violation recorded, infeasible, ...)
type engineErr struct{ msg string }  // unsupported construct: path inconclusive

// targetPanic is a panic of the interpreted program.
type targetPanic struct {
	v   Value // Iface
	pos token.Pos
	msg string
}

func isInternal(p interface{}) bool {
	switch p.(type) {
	case pathEnd, engineErr, threadKill:
		return true
	}
	return false
}

type threadKill struct{}

// ---- decisions / work items ----

type Decision struct {
	Kind   byte // 'b' branch, 'c' concretize, 'n' n-way choice, 's' schedule
	Choice uint64
}

type WorkItem struct {
	Dec   []Decision
	Model Model
}

type TapeEntry struct {
	Name string
	Kind string // int,bool,bytes(n),choose
	T    *Term  // nil for concrete choices
	Val  uint64 // for concrete choices
	W    int
}

type Violation struct {
	Harness string
	Label   string
	Kind    string // assert | panic | deadlock | unreached
	Msg     string
	Pos     string
	Tape    []TapeVal
	Sched   []int
	Model   Model
	Sig     string
}

type TapeVal struct {
	Name string `json:"name"`
	Val  uint64 `json:"val"`
}

// Machine executes one path at a time. One per worker.
type Machine struct {
	P      *Program
	tb     *TermTable
	solver *Solver

	// frozen globals (packages outside the repo), initialised once per worker
	frozenGlobals map[*ssa.Global]*Value
	frozenInited  map[*ssa.Package]bool

	// ---- per path ----
	harness      string
	pc           []*Term
	pcSet        map[int]bool
	model        Model
	ev           *evaluator
	prefix       []Decision
	di           int
	trace        []Decision
	globals      map[*ssa.Global]*Value
	inited       map[*ssa.Package]bool
	tape         []TapeEntry
	steps        int
	varCount     map[string]int
	reached      map[string]bool
	spawned      []spawnedGo
	side         map[interface{}]interface{} // per-path side tables for intrinsics (keyed by cell pointers)
	out          *PathOutcome
	newWork      []WorkItem
	ufCache      map[int]bool
	curPos       token.Pos
	depth        int
	params       map[string]int
	threads      *sched
	curThread    *thread
	notes        []string
	asciiAssumed bool
	initNotes    []string
	envVars      []*Term
	vinfo        map[int]*varInfo
	allocLimit   int
	decPos       []string
	yieldCache   map[*ssa.FieldAddr]bool
	DomDecided   int
	intrCache    map[*ssa.Function]Intrinsic
	StubsUsed    map[string]bool
	FuncsEncoded map[string]bool
}

type spawnedGo struct {
	fn   Value
	args []Value
	pos  token.Pos
}

type PathOutcome struct {
	Status      string // ok | violation | inconclusive | infeasible
	Reason      string
	Violations  []Violation
	Obligations int // solver-discharged assertion/panic obligations (unsat)
	Trivial     int // obligations folded to true syntactically
	Steps       int
	Reached     []string
	Decisions   int
	Samples     []string
}

type frame struct {
	m                *Machine
	caller           *frame
	fn               *ssa.Function
	block, prevBlock *ssa.BasicBlock
	env              map[ssa.Value]Value
	locals           []Value
	defers           *deferred
	result           Value
	panicking        bool
	panic            interface{}
	phitemps         []Value
}

func (m *Machine) unsupported(format string, a ...interface{}) {
	msg := fmt.Sprintf(format, a...)
	if m.curPos.IsValid() {
		msg += " at " + m.P.Fset.Position(m.curPos).String()
	}
	panic(engineErr{msg})
}

func (m *Machine) posStr(p token.Pos) string {
	if !p.IsValid() {
		return "?"
	}
	pp := m.P.Fset.Position(p)
	f := pp.Filename
	if i := strings.Index(f, "/repo/"); i >= 0 {
		f = f[i+6:]
	}
	return fmt.Sprintf("%s:%d", f, pp.Line)
}

// ---- globals & package init ----

func (m *Machine) isFrozenPkg(p *ssa.Package) bool {
	if p == nil {
		return true
	}
	path := p.Pkg.Path()
	return !strings.HasPrefix(path, m.P.RepoModule)
}

func (m *Machine) global(g *ssa.Global) *Value {
	pkg := g.Pkg
	if m.isFrozenPkg(pkg) {
		if c, ok := m.frozenGlobals[g]; ok {
			return c
		}
		m.initPkg(pkg, m.frozenGlobals, m.frozenInited)
		if c, ok := m.frozenGlobals[g]; ok {
			return c
		}
		m.unsupported("global %s not found", g)
	}
	if c, ok := m.globals[g]; ok {
		return c
	}
	m.initPkg(pkg, m.globals, m.inited)
	if c, ok := m.globals[g]; ok {
		return c
	}
	m.unsupported("global %s not found", g)
	return nil
}

func (m *Machine) initPkg(pkg *ssa.Package, globals map[*ssa.Global]*Value, inited map[*ssa.Package]bool) {
	if inited[pkg] {
		return
	}
	inited[pkg] = true
	for _, mem := range pkg.Members {
		if g, ok := mem.(*ssa.Global); ok {
			cell := m.zero(deref(g.Type()))
			globals[g] = &cell
		}
	}
	if m.P.SkipInit[pkg.Pkg.Path()] {
		return
	}
	if init := pkg.Func("init"); init != nil && init.Blocks != nil {
		saveSteps, saveDepth, savePos := m.steps, m.depth, m.curPos
		func() {
			defer func() {
				if p := recover(); p != nil {
					if e, ok := p.(engineErr); ok && m.isFrozenPkg(pkg) {
						// tolerated: the remaining initialisers of a library package are skipped
						m.initNotes = append(m.initNotes, "init of "+pkg.Pkg.Path()+" incomplete: "+e.msg)
						return
					}
					panic(p)
				}
			}()
			m.call(nil, token.NoPos, init, nil)
		}()
		m.steps, m.depth, m.curPos = saveSteps, saveDepth, savePos
	}
}

func deref(t types.Type) types.Type {
	if p, ok := t.Underlying().(*types.Pointer); ok {
		return p.Elem()
	}
	panic("deref of non-pointer " + t.String())
}

// ---- frames ----

func (fr *frame) get(key ssa.Value) Value {
	switch key := key.(type) {
	case nil:
		return nil
	case *ssa.Function, *ssa.Builtin:
		return key
	case *ssa.Const:
		return fr.m.constValue(key)
	case *ssa.Global:
		return fr.m.global(key)
	}
	if r, ok := fr.env[key]; ok {
		return r
	}
	fr.m.unsupported("get: no value for %T: %v in %s", key, key.Name(), fr.fn)
	return nil
}

func (fr *frame) runDefer(d *deferred) {
	var ok bool
	defer func() {
		if !ok {
			p := recover()
			if isInternal(p) {
				panic(p)
			}
			fr.panicking = true
			fr.panic = p
		}
	}()
	fr.m.call(fr, d.instr.Pos(), d.fn, d.args)
	ok = true
}

func (fr *frame) runDefers() {
	for d := fr.defers; d != nil; d = d.tail {
		fr.runDefer(d)
	}
	fr.defers = nil
	if fr.panicking {
		panic(fr.panic)
	}
}

func (m *Machine) runtimePanic(msg string) {
	panic(targetPanic{v: Iface{T: m.P.runtimeErrorString, V: Str{S: "runtime error: " + msg}}, pos: m.curPos, msg: "runtime error: " + msg})
}

func (m *Machine) call(caller *frame, callpos token.Pos, fn Value, args []Value) Value {
	switch fn := fn.(type) {
	case *ssa.Function:
		if fn == nil {
			m.runtimePanic("invalid memory address or nil pointer dereference (call of nil func)")
		}
		return m.callSSA(caller, callpos, fn, args, nil)
	case *Closure:
		return m.callSSA(caller, callpos, fn.Fn, args, fn.Env)
	case *ssa.Builtin:
		return m.callBuiltin(caller, callpos, fn, args)
	}
	m.unsupported("cannot call %T", fn)
	return nil
}

const maxDepth = 400

func (m *Machine) callSSA(caller *frame, callpos token.Pos, fn *ssa.Function, args []Value, env []Value) Value {
	fr := &frame{m: m, caller: caller, fn: fn}
	if caller != nil && fn.Synthetic == "package initializer" {
		// dependencies are initialised lazily on first access to one of their globals
		return nil
	}
	if h := m.P.lookupIntrinsic(fn, m); h != nil {
		save := m.curPos
		if callpos.IsValid() {
			m.curPos = callpos
		}
		r := h(fr, args)
		m.curPos = save
		return r
	}
	if fn.Blocks == nil {
		m.unsupported("no code for function %s", fn)
	}
	if fn.TypeParams().Len() > 0 && len(fn.TypeArgs()) == 0 {
		m.unsupported("uninstantiated generic %s", fn)
	}
	m.depth++
	if m.depth > maxDepth {
		m.unsupported("call depth limit in %s", fn)
	}
	defer func() { m.depth-- }()
	fr.env = make(map[ssa.Value]Value)
	fr.block = fn.Blocks[0]
	fr.locals = make([]Value, len(fn.Locals))
	for i, l := range fn.Locals {
		fr.locals[i] = m.zero(deref(l.Type()))
		fr.env[l] = &fr.locals[i]
	}
	for i, p := range fn.Params {
		fr.env[p] = args[i]
	}
	for i, fv := range fn.FreeVars {
		fr.env[fv] = env[i]
	}
	for fr.block != nil {
		m.runFrame(fr)
	}
	return fr.result
}

func (m *Machine) runFrame(fr *frame) {
	defer func() {
		if fr.block == nil {
			return // normal return
		}
		p := recover()
		if isInternal(p) {
			panic(p)
		}
		if _, ok := p.(targetPanic); !ok {
			// interpreter bug (Go runtime error inside the engine)
			panic(engineErr{fmt.Sprintf("engine fault in %s near %s: %v", fr.fn, m.posStr(m.curPos), p)})
		}
		fr.panicking = true
		fr.panic = p
		fr.runDefers()
		fr.block = fr.fn.Recover
		if fr.block == nil {
			// recovered, function has no named results: return zero value
			fr.result = m.zeroResult(fr.fn)
		}
	}()

	for {
		nonPhis := executePhis(fr)
		for _, instr := range nonPhis {
			m.steps++
			if m.steps > m.P.MaxSteps {
				panic(engineErr{fmt.Sprintf("step limit %d exceeded (unwinding bound) in %s", m.P.MaxSteps, fr.fn)})
			}
			if p := instr.Pos(); p.IsValid() {
				m.curPos = p
			}
			if m.P.Trace {
				if v, ok := instr.(ssa.Value); ok {
					fmt.Fprintf(os.Stderr, "  [%s] %s = %s\n", fr.fn.Name(), v.Name(), instr)
				} else {
					fmt.Fprintf(os.Stderr, "  [%s] %s\n", fr.fn.Name(), instr)
				}
			}
			switch m.visitInstr(fr, instr) {
			case kReturn:
				return
			case kJump:
			}
			if fr.block == nil {
				return
			}
		}
	}
}

func (m *Machine) zeroResult(fn *ssa.Function) Value {
	res := fn.Signature.Results()
	switch res.Len() {
	case 0:
		return nil
	case 1:
		return m.zero(res.At(0).Type())
	}
	return m.zero(res)
}

func executePhis(fr *frame) []ssa.Instruction {
	firstNonPhi := -1
	for i, instr := range fr.block.Instrs {
		if _, ok := instr.(*ssa.Phi); !ok {
			firstNonPhi = i
			break
		}
	}
	nonPhis := fr.block.Instrs[firstNonPhi:]
	if firstNonPhi > 0 {
		phis := fr.block.Instrs[:firstNonPhi]
		predIndex := slices.Index(fr.block.Preds, fr.prevBlock)
		fr.phitemps = fr.phitemps[:0]
		for _, phi := range phis {
			phi := phi.(*ssa.Phi)
			fr.phitemps = append(fr.phitemps, fr.get(phi.Edges[predIndex]))
		}
		for i, phi := range phis {
			fr.env[phi.(*ssa.Phi)] = fr.phitemps[i]
		}
	}
	return nonPhis
}

type continuation int

const (
	kNext continuation = iota
	kReturn
	kJump
)

func (m *Machine) derefPtr(v Value) *Value {
	p, ok := v.(*Value)
	if !ok {
		m.unsupported("deref of %T", v)
	}
	if p == nil {
		m.runtimePanic("invalid memory address or nil pointer dereference")
	}
	return p
}

func (m *Machine) visitInstr(fr *frame, instr ssa.Instruction) continuation {
	switch instr := instr.(type) {
	case *ssa.DebugRef:

	case *ssa.UnOp:
		fr.env[instr] = m.unop(instr, fr.get(instr.X))

	case *ssa.BinOp:
		if instr.Op == token.SHL || instr.Op == token.SHR {
			fr.env[instr] = m.binopShift(instr, fr.get(instr.X), fr.get(instr.Y))
		} else {
			fr.env[instr] = m.binop(instr.Op, instr.X.Type(), fr.get(instr.X), fr.get(instr.Y))
		}

	case *ssa.Call:
		fn, args := m.prepareCall(fr, &instr.Call)
		fr.env[instr] = m.call(fr, instr.Pos(), fn, args)

	case *ssa.ChangeInterface:
		fr.env[instr] = fr.get(instr.X)

	case *ssa.ChangeType:
		fr.env[instr] = fr.get(instr.X)

	case *ssa.Convert:
		fr.env[instr] = m.conv(instr.Type(), instr.X.Type(), fr.get(instr.X))

	case *ssa.SliceToArrayPointer:
		x := fr.get(instr.X).([]Value)
		n := int(deref(instr.Type()).Underlying().(*types.Array).Len())
		if len(x) < n {
			m.runtimePanic("cannot convert slice to array pointer: length too short")
		}
		if x == nil {
			fr.env[instr] = (*Value)(nil)
		} else {
			var cell Value = Array(x[:n:n])
			fr.env[instr] = &cell
		}

	case *ssa.MakeInterface:
		fr.env[instr] = Iface{T: instr.X.Type(), V: fr.get(instr.X)}

	case *ssa.Extract:
		fr.env[instr] = fr.get(instr.Tuple).(Tuple)[instr.Index]

	case *ssa.Slice:
		fr.env[instr] = m.slice(instr.X.Type(), fr.get(instr.X), fr.get(instr.Low), fr.get(instr.High), fr.get(instr.Max))

	case *ssa.Return:
		switch len(instr.Results) {
		case 0:
		case 1:
			fr.result = fr.get(instr.Results[0])
		default:
			var res []Value
			for _, r := range instr.Results {
				res = append(res, fr.get(r))
			}
			fr.result = Tuple(res)
		}
		fr.block = nil
		return kReturn

	case *ssa.RunDefers:
		fr.runDefers()

	case *ssa.Panic:
		v := fr.get(instr.X)
		panic(targetPanic{v: v, pos: instr.Pos(), msg: m.panicString(v)})

	case *ssa.Send:
		m.chanSend(fr.get(instr.Chan).(*Chan), fr.get(instr.X))

	case *ssa.Store:
		addr := fr.get(instr.Addr)
		if sp, ok := addr.(*SymPtr); ok {
			m.symStore(sp, fr.get(instr.Val))
		} else {
			store(m.derefPtr(addr), fr.get(instr.Val))
		}

	case *ssa.If:
		succ := 1
		if m.branch(fr.get(instr.Cond).(*Term)) {
			succ = 0
		}
		fr.prevBlock, fr.block = fr.block, fr.block.Succs[succ]
		return kJump

	case *ssa.Jump:
		fr.prevBlock, fr.block = fr.block, fr.block.Succs[0]
		return kJump

	case *ssa.Defer:
		fn, args := m.prepareCall(fr, &instr.Call)
		defers := &fr.defers
		if instr.DeferStack != nil {
			if into := fr.get(instr.DeferStack); into != nil {
				defers = into.(**deferred)
			}
		}
		*defers = &deferred{fn: fn, args: args, instr: instr, tail: *defers}

	case *ssa.Go:
		fn, args := m.prepareCall(fr, &instr.Call)
		m.spawn(fn, args, instr.Pos())

	case *ssa.MakeChan:
		n := m.concretizeInt(fr.get(instr.Size).(*Term), true, "chan size")
		fr.env[instr] = &Chan{Cap: int(n), ET: instr.Type().Underlying().(*types.Chan).Elem()}

	case *ssa.Alloc:
		var addr *Value
		if instr.Heap {
			addr = new(Value)
			fr.env[instr] = addr
		} else {
			addr = fr.env[instr].(*Value)
		}
		*addr = m.zero(deref(instr.Type()))

	case *ssa.MakeSlice:
		_, lsigned, _ := intInfo(instr.Len.Type())
		m.checkAllocLimit(fr.get(instr.Len).(*Term), lsigned, 1)
		ln := m.concretizeAlloc(fr.get(instr.Len).(*Term), lsigned, "make len")
		_, csigned, _ := intInfo(instr.Cap.Type())
		cp := m.concretizeAlloc(fr.get(instr.Cap).(*Term), csigned, "make cap")
		if ln < 0 || ln > int64(m.P.MaxAlloc) {
			if ln < 0 {
				m.runtimePanic("makeslice: len out of range")
			}
			m.unsupported("make: length %d beyond engine allocation bound %d", ln, m.P.MaxAlloc)
		}
		if cp < ln {
			m.runtimePanic("makeslice: cap out of range")
		}
		if cp > int64(m.P.MaxAlloc) {
			cp = ln // capacity hints are not observable except through cap(); bounded
		}
		sl := make([]Value, cp)
		tElt := instr.Type().Underlying().(*types.Slice).Elem()
		z := m.zero(tElt)
		for i := range sl {
			sl[i] = copyVal(z)
		}
		fr.env[instr] = sl[:ln]

	case *ssa.MakeMap:
		fr.env[instr] = &Map{KT: instr.Type().Underlying().(*types.Map).Key()}

	case *ssa.Range:
		fr.env[instr] = m.rangeIter(fr.get(instr.X), instr.X.Type())

	case *ssa.Next:
		fr.env[instr] = fr.get(instr.Iter).(iter).next(m)

	case *ssa.FieldAddr:
		p := m.derefPtr(fr.get(instr.X))
		if m.threads != nil && len(m.P.YieldFields) > 0 && m.isYieldField(instr) {
			m.yield("field access")
		}
		fr.env[instr] = &(*p).(Struct)[instr.Field]

	case *ssa.Field:
		fr.env[instr] = fr.get(instr.X).(Struct)[instr.Field]

	case *ssa.IndexAddr:
		x := fr.get(instr.X)
		idx := fr.get(instr.Index).(*Term)
		var base []Value
		switch x := x.(type) {
		case []Value:
			base = x
		case *Value:
			base = (*m.derefPtr(x)).(Array)
		default:
			m.unsupported("IndexAddr on %T", x)
		}
		fr.env[instr] = m.indexAddr(base, idx, instr.Index.Type())

	case *ssa.Index:
		x := fr.get(instr.X)
		idx := fr.get(instr.Index).(*Term)
		switch x := x.(type) {
		case Array:
			a := m.indexAddr([]Value(x), idx, instr.Index.Type())
			if sp, ok := a.(*SymPtr); ok {
				fr.env[instr] = m.symLoad(sp)
			} else {
				fr.env[instr] = load(a.(*Value))
			}
		case Str:
			fr.env[instr] = m.strIndex(x, idx, instr.Index.Type())
		case []Value:
			a := m.indexAddr(x, idx, instr.Index.Type())
			if sp, ok := a.(*SymPtr); ok {
				fr.env[instr] = m.symLoad(sp)
			} else {
				fr.env[instr] = load(a.(*Value))
			}
		default:
			m.unsupported("Index on %T", x)
		}

	case *ssa.Lookup:
		fr.env[instr] = m.lookup(instr, fr.get(instr.X), fr.get(instr.Index))

	case *ssa.MapUpdate:
		mp := fr.get(instr.Map).(*Map)
		if mp == nil {
			m.runtimePanic("assignment to entry in nil map")
		}
		m.mapInsert(mp, fr.get(instr.Key), fr.get(instr.Value))

	case *ssa.TypeAssert:
		fr.env[instr] = m.typeAssert(instr, fr.get(instr.X).(Iface))

	case *ssa.MakeClosure:
		var bindings []Value
		for _, b := range instr.Bindings {
			bindings = append(bindings, fr.get(b))
		}
		fr.env[instr] = &Closure{instr.Fn.(*ssa.Function), bindings}

	case *ssa.Select:
		fr.env[instr] = m.doSelect(fr, instr)

	case *ssa.MultiConvert:
		m.unsupported("MultiConvert")

	default:
		m.unsupported("unexpected instruction %T", instr)
	}
	return kNext
}

func (m *Machine) prepareCall(fr *frame, call *ssa.CallCommon) (fn Value, args []Value) {
	v := fr.get(call.Value)
	if call.Method == nil {
		fn = v
	} else {
		recv := v.(Iface)
		if recv.T == nil {
			m.runtimePanic("invalid memory address or nil pointer dereference (method call on nil interface)")
		}
		f := m.P.Prog.LookupMethod(recv.T, call.Method.Pkg(), call.Method.Name())
		if f == nil {
			m.unsupported("method set for dynamic type %v does not contain %s", recv.T, call.Method)
		}
		fn = f
		args = append(args, recv.V)
	}
	for _, arg := range call.Args {
		args = append(args, fr.get(arg))
	}
	return
}

func (m *Machine) doRecover(caller *frame) Value {
	if caller != nil && !caller.panicking && caller.caller != nil && caller.caller.panicking {
		caller.caller.panicking = false
		p := caller.caller.panic
		caller.caller.panic = nil
		switch p := p.(type) {
		case targetPanic:
			if m.out != nil {
				m.notes = append(m.notes, "recovered: "+p.msg+" @"+m.posStr(p.pos))
			}
			return p.v
		default:
			panic(engineErr{fmt.Sprintf("unexpected panic type %T in recover", p)})
		}
	}
	return Iface{}
}

func (m *Machine) panicString(v Value) string {
	if i, ok := v.(Iface); ok {
		if i.T == nil {
			return "panic(nil)"
		}
		switch x := i.V.(type) {
		case Str:
			if s, ok := x.Concrete(); ok {
				return s
			}
			return "<symbolic string>"
		case *Value:
			// error values: *errors.errorString{ s }
			if x != nil {
				if st, ok := (*x).(Struct); ok && len(st) == 1 {
					if s, ok := st[0].(Str); ok {
						if c, ok := s.Concrete(); ok {
							return c
						}
					}
				}
			}
		}
		return fmt.Sprintf("panic(%s)", i.T)
	}
	return fmt.Sprintf("%v", v)
}

func (m *Machine) spawn(fn Value, args []Value, pos token.Pos) {
	if m.threads != nil {
		m.threads.spawn(m, fn, args, pos)
		return
	}
	m.spawned = append(m.spawned, spawnedGo{fn, args, pos})
}

// isYieldField reports whether the accessed struct field is configured as a visible
// (schedulable) shared-memory access: "pkgpath.Type.field".
func (m *Machine) isYieldField(instr *ssa.FieldAddr) bool {
	if v, ok := m.yieldCache[instr]; ok {
		return v
	}
	res := false
	pt := instr.X.Type().Underlying().(*types.Pointer).Elem()
	if named, ok := pt.(*types.Named); ok {
		if st, ok := named.Underlying().(*types.Struct); ok && named.Obj().Pkg() != nil {
			key := named.Obj().Pkg().Path() + "." + named.Obj().Name() + "." + st.Field(instr.Field).Name()
			res = m.P.YieldFields[key]
		}
	}
	m.yieldCache[instr] = res
	return res
}
