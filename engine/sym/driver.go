package sym

import (
	"fmt"
	"os"
	"sort"
	"sync"
	"time"

	"golang.org/x/tools/go/ssa"
)

// ExploreResult aggregates all paths of one harness.
type ExploreResult struct {
	Harness      string
	Paths        int
	Feasible     int
	Infeasible   int
	Blocked      int
	Steps        int64
	Obligations  int
	Trivial      int
	Inconclusive []string
	Violations   []Violation
	Reached      map[string]int
	Queries      [3]int
	SolverMs     float64
	WallS        float64
	MaxDecisions int
	Samples      []string
	StubsUsed    map[string]bool
	Funcs        map[string]bool
	SolverErrors []string
	Notes        map[string]int
	ASCIIAssumed bool
	PathLimitHit bool
}

type ExploreOpts struct {
	Workers       int
	MaxPaths      int
	SolverName    string
	TimeoutMs     int
	MaxViolations int
	Deadline      time.Time
	Progress      bool
}

func NewMachine(P *Program, solverName string, timeoutMs int) *Machine {
	tb := NewTermTable()
	m := &Machine{P: P, tb: tb, solver: NewSolver(solverName, tb, timeoutMs),
		frozenGlobals: map[*ssa.Global]*Value{}, frozenInited: map[*ssa.Package]bool{},
		intrCache: map[*ssa.Function]Intrinsic{}, yieldCache: map[*ssa.FieldAddr]bool{}, StubsUsed: map[string]bool{}, FuncsEncoded: map[string]bool{}}
	m.side = map[interface{}]interface{}{}
	m.varCount = map[string]int{}
	m.pcSet = map[int]bool{}
	m.ufCache = map[int]bool{}
	return m
}

func (m *Machine) Close() { m.solver.Close() }

// Explore runs all paths of a harness with a pool of workers.
func Explore(P *Program, h *HarnessSpec, o ExploreOpts) *ExploreResult {
	t0 := time.Now()
	res := &ExploreResult{Harness: h.Name, Reached: map[string]int{}, StubsUsed: map[string]bool{}, Funcs: map[string]bool{}, Notes: map[string]int{}}
	var mu sync.Mutex
	cond := sync.NewCond(&mu)
	stack := []WorkItem{{}}
	active := 0
	stop := false
	sigCount := map[string]int{}

	worker := func() {
		m := NewMachine(P, o.SolverName, o.TimeoutMs)
		defer func() {
			mu.Lock()
			for i := 0; i < 3; i++ {
				res.Queries[i] += m.solver.Queries[i]
			}
			res.SolverMs += float64(m.solver.SolverNs) / 1e6
			for k := range m.StubsUsed {
				res.StubsUsed[k] = true
			}
			for k := range m.FuncsEncoded {
				res.Funcs[k] = true
			}
			res.SolverErrors = append(res.SolverErrors, m.solver.Errors...)
			mu.Unlock()
			m.Close()
		}()
		for {
			mu.Lock()
			for len(stack) == 0 && active > 0 && !stop {
				cond.Wait()
			}
			if stop || (len(stack) == 0 && active == 0) {
				mu.Unlock()
				cond.Broadcast()
				return
			}
			item := stack[len(stack)-1]
			stack = stack[:len(stack)-1]
			active++
			mu.Unlock()

			out, nw := m.RunPath(h, item)

			mu.Lock()
			active--
			res.Paths++
			res.Steps += int64(out.Steps)
			res.Obligations += out.Obligations
			res.Trivial += out.Trivial
			if out.Decisions > res.MaxDecisions {
				res.MaxDecisions = out.Decisions
			}
			if m.asciiAssumed {
				res.ASCIIAssumed = true
			}
			for _, n := range m.notes {
				res.Notes[n]++
			}
			switch out.Status {
			case "ok":
				res.Feasible++
				for _, l := range out.Reached {
					res.Reached[l]++
				}
			case "infeasible":
				res.Infeasible++
			case "inconclusive":
				if len(res.Inconclusive) < 20 {
					res.Inconclusive = append(res.Inconclusive, out.Reason)
				} else {
					res.Inconclusive[19] = "... more"
				}
			case "violation":
				res.Feasible++
			}
			for _, v := range out.Violations {
				v.Sig = fmt.Sprintf("%s|%s|%s|%s", v.Harness, v.Kind, v.Label, v.Pos)
				if sigCount[v.Sig] < 6 {
					sigCount[v.Sig]++
					res.Violations = append(res.Violations, v)
				}
			}
			if len(res.Samples) < 6 {
				res.Samples = append(res.Samples, out.Samples...)
			}
			stack = append(stack, nw...)
			if o.MaxPaths > 0 && res.Paths >= o.MaxPaths && len(stack) > 0 {
				res.PathLimitHit = true
				stop = true
			}
			if o.MaxViolations > 0 && len(sigCount) >= o.MaxViolations {
				stop = true
			}
			if !o.Deadline.IsZero() && time.Now().After(o.Deadline) {
				res.PathLimitHit = true
				res.Inconclusive = append(res.Inconclusive, "time budget exhausted")
				stop = true
			}
			mu.Unlock()
			cond.Broadcast()
		}
	}
	if o.Progress {
		done := make(chan struct{})
		defer close(done)
		go func() {
			for {
				select {
				case <-done:
					return
				case <-time.After(10 * time.Second):
					mu.Lock()
					fmt.Fprintf(os.Stderr, "  .. %s: paths=%d stack=%d active=%d viol=%d inconcl=%d t=%.0fs\n", h.Name, res.Paths, len(stack), active, len(res.Violations), len(res.Inconclusive), time.Since(t0).Seconds())
					mu.Unlock()
				}
			}
		}()
	}
	var wg sync.WaitGroup
	for i := 0; i < o.Workers; i++ {
		wg.Add(1)
		go func() { defer wg.Done(); worker() }()
	}
	wg.Wait()
	if res.PathLimitHit {
		res.Inconclusive = append(res.Inconclusive, fmt.Sprintf("path limit %d hit (%d unexplored)", o.MaxPaths, len(stack)))
	}
	sort.Slice(res.Violations, func(i, j int) bool { return res.Violations[i].Sig < res.Violations[j].Sig })
	res.WallS = time.Since(t0).Seconds()
	return res
}
