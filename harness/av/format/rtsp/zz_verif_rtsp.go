package rtsp

import (
	"bufio"
	"bytes"
	"io"
	"net/url"

	"github.com/cnotch/ipchub/zzverif/symapi"
)

const verifPrintable = "abAB019 :;=,/-_."

// verifValue returns a header value of n symbolic bytes: printable, no CR/LF, and already
// trimmed (no leading or trailing blank) as every emitter produces them.
func verifValue(name string, n int) string {
	s := symapi.String(name, n)
	for i := 0; i < n; i++ {
		symapi.Assume(symapi.OneOf(s[i], verifPrintable))
	}
	if n > 0 {
		symapi.Assume(s[0] != ' ' && s[n-1] != ' ')
	}
	return s
}

func verifReader(b []byte) *bufio.Reader {
	return bufio.NewReaderSize(bytes.NewReader(b), 64)
}

// VerifRequestRoundTrip: Write -> ReadRequest gives the same request and leaves the reader
// positioned at the bytes that follow.
func VerifRequestRoundTrip() {
	NV := symapi.Param("NV", 3)
	NB := symapi.Param("NB", 3)
	methods := []string{MethodOptions, MethodDescribe, MethodSetup, MethodPlay, MethodAnnounce, MethodTeardown}
	urls := []string{"rtsp://h/a", "rtsp://[::1]:554/a/b?x=1", "rtsp://u:p@h:8554/live/1"}
	u, err := url.Parse(urls[symapi.Choose("url", len(urls))])
	symapi.Assert(err == nil, "url-parses")
	req := &Request{Method: methods[symapi.Choose("method", len(methods))], URL: u, Header: make(Header)}
	cseq := verifValue("cseq", symapi.IntRange("ncseq", 1, NV))
	req.Header.Set(FieldCSeq, cseq)
	hasSess := symapi.Bool("hasSession")
	sess := ""
	if hasSess {
		sess = verifValue("sess", symapi.IntRange("nsess", 1, NV))
		req.Header.Set(FieldSession, sess)
	}
	body := symapi.String("body", symapi.IntRange("nbody", 0, NB))
	req.Body = body
	if symapi.Bool("staleContentLength") {
		req.Header.Set(FieldContentLength, "5")
	}
	var buf bytes.Buffer
	symapi.Assert(req.Write(&buf) == nil, "write-ok")
	buf.WriteString("$\x00\x00\x01Z")
	r := verifReader(buf.Bytes())
	got, err := ReadRequest(r)
	symapi.Assert(err == nil && got != nil, "read-ok")
	symapi.Assert(got.Method == req.Method, "method-equal")
	symapi.Assert(got.URL.String() == u.String(), "url-equal")
	symapi.Assert(got.Proto == "RTSP/1.0", "proto")
	symapi.Assert(got.Header.Get(FieldCSeq) == cseq, "cseq-equal")
	symapi.Assert(got.Header.Get(FieldSession) == sess, "session-equal")
	symapi.Assert(got.Body == body, "body-equal")
	wantHdrs := 1
	if hasSess {
		wantHdrs++
	}
	if len(body) > 0 {
		wantHdrs++
		symapi.Assert(got.Header.Int(FieldContentLength) == len(body), "content-length")
	}
	symapi.Assert(len(got.Header) == wantHdrs, "no-extra-header-fields")
	rest := make([]byte, 5)
	n, _ := io.ReadFull(r, rest)
	_, eof := r.ReadByte()
	symapi.Assert(n == 5 && rest[0] == '$' && rest[4] == 'Z' && eof != nil, "positioned-at-next-message")
	symapi.Reach("end")
}

// VerifResponseRoundTrip: the same for responses.
func VerifResponseRoundTrip() {
	NV := symapi.Param("NV", 3)
	NB := symapi.Param("NB", 3)
	codes := []int{200, 401, 404, 455, 461, 500, 299}
	resp := &Response{StatusCode: codes[symapi.Choose("code", len(codes))], Header: make(Header)}
	cseq := verifValue("cseq", symapi.IntRange("ncseq", 1, NV))
	resp.Header.Set(FieldCSeq, cseq)
	pub := ""
	if symapi.Bool("hasPublic") {
		pub = verifValue("pub", symapi.IntRange("npub", 1, NV))
		resp.Header.Set(FieldPublic, pub)
	}
	body := symapi.String("body", symapi.IntRange("nbody", 0, NB))
	resp.Body = body
	// the header map may be one that was used for a message with a body before (a reply built
	// from the request it answers): a stale Content-Length must not survive
	if symapi.Bool("staleContentLength") {
		resp.Header.Set(FieldContentLength, "5")
	}
	var buf bytes.Buffer
	symapi.Assert(resp.Write(&buf) == nil, "write-ok")
	buf.WriteString("OPTIONS * RTSP/1.0\r\n")
	r := verifReader(buf.Bytes())
	got, err := ReadResponse(r)
	symapi.Assert(err == nil && got != nil, "read-ok")
	symapi.Assert(got.StatusCode == resp.StatusCode, "status-equal")
	symapi.Assert(got.Proto == "RTSP/1.0", "proto")
	symapi.Assert(got.Header.Get(FieldCSeq) == cseq, "cseq-equal")
	symapi.Assert(got.Header.Get(FieldPublic) == pub, "public-equal")
	symapi.Assert(got.Body == body, "body-equal")
	l, _, _ := r.ReadLine()
	symapi.Assert(string(l) == "OPTIONS * RTSP/1.0", "positioned-at-next-message")
	symapi.Reach("end")
}

// VerifRtspGarbage: arbitrary bytes give an error or a value, never a panic.
func VerifRtspGarbage() {
	N := symapi.Param("N", 6)
	n := symapi.IntRange("n", 0, N)
	b := symapi.Bytes("b", n)
	for i := range b {
		symapi.Assume(b[i] < 0x80)
	}
	switch symapi.Choose("entry", 3) {
	case 0:
		ReadResponse(verifReader(b))
	case 1:
		ReadHeader(verifReader(b))
	case 2:
		ReadRequest(verifReader(b))
	}
	symapi.Reach("end")
}

func VerifRequestRoundTripTwin() {
	u, _ := url.Parse("rtsp://h/a")
	req := &Request{Method: MethodPlay, URL: u, Header: make(Header)}
	req.Header.Set(FieldCSeq, verifValue("cseq", 2))
	var buf bytes.Buffer
	req.Write(&buf)
	got, _ := ReadRequest(verifReader(buf.Bytes()))
	symapi.Assert(got.Header.Get(FieldCSeq) == "7", "twin-cseq-always-7")
}

// VerifRtspLimits: an absurd Content-Length is rejected before the body buffer is
// allocated, and an over-long header line is rejected instead of being accumulated.
func VerifRtspLimits() {
	switch symapi.Choose("case", 3) {
	case 0, 1:
		// 8..10 digits: two symbolic leading digits followed by zeros (10^7 .. 9.9*10^9;
		// values above 2^31-1 do not parse as int32 and count as "no body")
		nd := symapi.IntRange("digits", 8, 10)
		d := symapi.String("cl", 2)
		symapi.Assume(d[0] >= '1' && d[0] <= '9' && d[1] >= '0' && d[1] <= '9')
		for i := 2; i < nd; i++ {
			d += "0"
		}
		var msg string
		if symapi.Choose("kind", 2) == 0 {
			msg = "RTSP/1.0 200 OK\r\nCSeq: 1\r\nContent-Length: " + d + "\r\n\r\nab"
			symapi.NoLargeAlloc(64<<20, func() { ReadResponse(verifReader([]byte(msg))) })
		} else {
			msg = "ANNOUNCE rtsp://h/a RTSP/1.0\r\nCSeq: 1\r\nContent-Length: " + d + "\r\n\r\nab"
			symapi.NoLargeAlloc(64<<20, func() { ReadRequest(verifReader([]byte(msg))) })
		}
		symapi.Reach("content-length")
	case 2:
		long := make([]byte, 70000)
		for i := range long {
			long[i] = 'a'
		}
		msg := append([]byte("X-Long: "), long...)
		msg = append(msg, "\r\nCSeq: 1\r\n\r\n"...)
		h, err := ReadHeader(bufio.NewReaderSize(bytes.NewReader(msg), 4096))
		symapi.Assert(err != nil && h == nil, "over-long-header-line-rejected")
		symapi.Reach("long-line")
	}
}

// verifChunkReader delivers its data in pieces: no Read crosses a cut position.
type verifChunkReader struct {
	data []byte
	pos  int
	cuts []int
}

func (c *verifChunkReader) Read(p []byte) (int, error) {
	if c.pos >= len(c.data) {
		return 0, io.EOF
	}
	end := len(c.data)
	for _, k := range c.cuts {
		if k > c.pos && k < end {
			end = k
		}
	}
	n := copy(p, c.data[c.pos:end])
	c.pos += n
	return n, nil
}

// VerifChunkedStream: a request with a body, a response with a body and a trailing marker,
// concatenated and delivered in any chunking (CUTS symbolic cut positions anywhere in the
// stream, e.g. TCP segment boundaries): the readers yield exactly those messages and stay
// positioned at the next one.
func VerifChunkedStream() {
	CUTS := symapi.Param("CUTS", 1)
	NB := symapi.Param("NB", 3)
	u, _ := url.Parse("rtsp://h/a")
	req := &Request{Method: MethodAnnounce, URL: u, Header: make(Header)}
	req.Header.Set(FieldCSeq, "7")
	req.Body = "v=0\r\n" + symapi.String("body", NB)
	resp := &Response{StatusCode: 200, Header: make(Header)}
	resp.Header.Set(FieldCSeq, "7")
	resp.Body = symapi.String("rbody", NB) + "\r\nm=video"
	var buf bytes.Buffer
	req.Write(&buf)
	resp.Write(&buf)
	buf.WriteString("$\x00\x00\x01Z")
	data := buf.Bytes()
	cr := &verifChunkReader{data: data}
	for i := 0; i < CUTS; i++ {
		cr.cuts = append(cr.cuts, 1+symapi.Choose("cut", len(data)-1))
	}
	r := bufio.NewReaderSize(cr, 64)
	got, err := ReadRequest(r)
	symapi.Assert(err == nil && got != nil, "chunked-request-read")
	symapi.Assert(got.Method == MethodAnnounce && got.Header.Get(FieldCSeq) == "7", "chunked-request-fields")
	symapi.Assert(got.Body == req.Body, "chunked-request-body-complete")
	gr, err := ReadResponse(r)
	symapi.Assert(err == nil && gr != nil, "chunked-response-read")
	symapi.Assert(gr.StatusCode == 200 && gr.Body == resp.Body, "chunked-response-body-complete")
	rest := make([]byte, 5)
	n, _ := io.ReadFull(r, rest)
	symapi.Assert(n == 5 && rest[0] == '$' && rest[4] == 'Z', "positioned-at-next-message")
	symapi.Reach("end")
}

// verifPlainWriter is an io.Writer without WriteString (as buffered.Conn is).
type verifPlainWriter struct{ b []byte }

func (w *verifPlainWriter) Write(p []byte) (int, error) { w.b = append(w.b, p...); return len(p), nil }

// VerifPlainWriterBodies: messages written to a plain io.Writer (no WriteString method - the
// server's connections are such writers) equal byte for byte what a bytes.Buffer receives,
// for bodies and header values of every size class up to 70000 bytes.
func VerifPlainWriterBodies() {
	n := []int{0, 1, 2047, 2048, 2049, 4096, 8193, 70000}[symapi.Choose("bodySize", 8)]
	body := make([]byte, n)
	for i := range body {
		body[i] = 'a' + byte(i%23)
	}
	u, _ := url.Parse("rtsp://h/a")
	req := &Request{Method: MethodAnnounce, URL: u, Header: make(Header), Body: string(body)}
	req.Header.Set(FieldCSeq, "3")
	resp := &Response{StatusCode: 200, Header: make(Header), Body: string(body)}
	resp.Header.Set(FieldCSeq, "3")
	var ref bytes.Buffer
	pw := &verifPlainWriter{}
	if symapi.Bool("response") {
		resp.Write(&ref)
		symapi.Assert(resp.Write(pw) == nil, "write-ok")
	} else {
		req.Write(&ref)
		symapi.Assert(req.Write(pw) == nil, "write-ok")
	}
	want := ref.Bytes()
	symapi.Assert(len(pw.b) == len(want), "plain-writer-receives-the-whole-message")
	for i := 0; i < len(want) && i < len(pw.b); i += 61 {
		symapi.Assert(pw.b[i] == want[i], "plain-writer-bytes-equal")
	}
	if len(want) > 0 && len(pw.b) == len(want) {
		symapi.Assert(pw.b[len(want)-1] == want[len(want)-1], "plain-writer-bytes-equal")
	}
	symapi.Reach("end")
}
