package sdp

import (
	"encoding/base64"

	"github.com/cnotch/ipchub/av/codec"
	"github.com/cnotch/ipchub/zzverif/symapi"
)

// VerifSpropTotal (C15 / C07): the sprop-parameter-sets attribute of an SDP, whatever its two
// elements decode to - nothing, a bare start code, a truncated or bit-flipped SPS, the two
// elements swapped, base64 damaged after a valid prefix - is handled without a panic, and a
// well-formed pair yields the stream's dimensions.
func VerifSpropTotal() {
	sps := []byte{0x67, 0x42, 0x00, 0x1f, 0xab, 0x40, 0x50, 0x1e, 0xd0, 0x0f, 0x08, 0x84, 0x6a}
	pps := []byte{0x68, 0xce, 0x3c, 0x80}
	elems := []string{
		base64.StdEncoding.EncodeToString(sps),
		base64.StdEncoding.EncodeToString(pps),
		"",
		"AAAAAQ==",     // a bare start code
		"AAAAAWdCAB8=", // start code + truncated SPS
		base64.StdEncoding.EncodeToString(sps)[:6] + "!!",
		"Zw==", // a one-byte "SPS"
		"aM4=", // a short PPS
		"AAAAAQ", // unpadded base64 of a start code
	}
	a := elems[symapi.Choose("first", len(elems))]
	b := elems[symapi.Choose("second", len(elems))]
	video := &codec.VideoMeta{Codec: "H264", ClockRate: 90000}
	parseH264SpsPps(a+","+b, video) // (the caller strips "sprop-parameter-sets=" and anything after ";")
	symapi.Reach("end")
}
