package sdp

import (
	"encoding/base64"

	"github.com/cnotch/ipchub/av/codec"
	"github.com/cnotch/ipchub/zzverif/symapi"
	"github.com/pixelbender/go-sdp/sdp"
)

// VerifSpropTotal (C15 / C07): the sprop-parameter-sets attribute of an SDP, whatever its two
// elements decode to - nothing, a bare start code, a truncated or bit-flipped SPS, the two
// elements swapped, base64 damaged after a valid prefix - is handled without a panic, and a
// well-formed pair yields the stream's dimensions.
func VerifSpropTotal() {
	sps := []byte{0x67, 0x42, 0x00, 0x1f, 0xab, 0x40, 0x50, 0x1e, 0xd0, 0x0f, 0x08, 0x84, 0x6a}
	pps := []byte{0x68, 0xce, 0x3c, 0x80}
	elems := []string{
		base64.StdEncoding.EncodeToString(sps),
		base64.StdEncoding.EncodeToString(pps),
		"",
		"AAAAAQ==",     // a bare start code
		"AAAAAWdCAB8=", // start code + truncated SPS
		base64.StdEncoding.EncodeToString(sps)[:6] + "!!",
		"Zw==",   // a one-byte "SPS"
		"aM4=",   // a short PPS
		"AAAAAQ", // unpadded base64 of a start code
	}
	a := elems[symapi.Choose("first", len(elems))]
	b := elems[symapi.Choose("second", len(elems))]
	video := &codec.VideoMeta{Codec: "H264", ClockRate: 90000}
	parseH264SpsPps(a+","+b, video) // (the caller strips "sprop-parameter-sets=" and anything after ";")
	symapi.Reach("end")
}

// VerifAudioMetaClock (C06 / C07): the audio track's sample rate is what the RTP depacketizer
// uses as the RTP clock and what the HLS/FLV side divides by: it is the rtpmap clock rate the
// publisher announced - whatever the config= AudioSpecificConfig says (HE-AAC announcing the
// core rate with an SBR extension rate, a reserved sampling index, an explicit frequency of
// 0, damaged hex) - and never 0.
func VerifAudioMetaClock() {
	rate := []int{44100, 22050, 8000, 48000, 0}[symapi.Choose("rtpmapRate", 5)]
	chans := symapi.Choose("rtpmapChannels", 3)
	config := []string{"1210", "139056E5A0", "1690", "1710", "1780000010", "zz", "", "12"}[symapi.Choose("config", 8)]
	m := &sdp.Format{Payload: 97, Name: "MPEG4-GENERIC", ClockRate: rate, Channels: chans,
		Params: []string{"profile-level-id=1;mode=AAC-hbr;sizelength=13;indexlength=3;indexdeltalength=3;config=" + config}}
	if symapi.Bool("configNotLast") {
		m.Params[0] += ";streamtype=5"
	}
	audio := &codec.AudioMeta{Codec: "AAC"}
	parseAudioMeta(m, audio)
	symapi.Assert(audio.SampleRate > 0, "audio-sample-rate-never-zero")
	if rate > 0 {
		symapi.Assert(audio.SampleRate == rate, "audio-clock-is-the-announced-rtpmap-rate")
	}
	if chans > 0 {
		symapi.Assert(audio.Channels == chans, "audio-channels-are-the-announced-ones")
	}
	symapi.Reach("end")
}

// VerifVideoCodecNames (C02 / C15): every spelling of the codec name the SDP parser accepts
// (h264, H264, h265, H265, hevc, HEVC) ends as the canonical name the stream uses to pick
// its parameter-set / GOP cache and its muxers ("H264" or "H265").
func VerifVideoCodecNames() {
	names := []string{"h264", "H264", "h265", "H265", "hevc", "HEVC"}
	k := symapi.Choose("name", len(names))
	video := &codec.VideoMeta{Codec: names[k]}
	m := &sdp.Format{Payload: 96, Name: names[k], ClockRate: 90000, Params: []string{"packetization-mode=1"}}
	parseVideoMeta(m, video)
	want := "H264"
	if k >= 2 {
		want = "H265"
	}
	symapi.Assert(video.Codec == want, "codec-name-canonical-for-every-accepted-spelling")
	symapi.Assert(video.ClockRate == 90000, "clock-rate-kept")
	symapi.Reach("end")
}
