package rtp

import (
	"bufio"
	"bytes"
	"io"

	"github.com/cnotch/ipchub/zzverif/symapi"
)

// VerifFrameRoundTrip (C14): Packet.Write -> ReadPacket yields the same channel and payload
// and leaves the reader exactly at the bytes that follow the frame.
func VerifFrameRoundTrip() {
	N := symapi.Param("N", 4)
	table := []int{int(symapi.Byte("c0")), int(symapi.Byte("c1")), int(symapi.Byte("c2")), int(symapi.Byte("c3"))}
	symapi.Assume(table[0] != table[1] && table[0] != table[2] && table[0] != table[3] &&
		table[1] != table[2] && table[1] != table[3] && table[2] != table[3])
	ch := symapi.IntRange("ch", 0, 3)
	n := symapi.IntRange("n", 0, N)
	var data []byte
	if ch == ChannelVideo || ch == ChannelAudio {
		// media channels carry RTP packets: fixed 12-byte header (V=2, no extension, no CSRC)
		hdr := symapi.Bytes("hdr", 12)
		symapi.Assume(hdr[0] == 0x80)
		data = append(hdr, symapi.Bytes("pay", n)...)
	} else {
		data = symapi.Bytes("rtcp", n)
	}
	orig := make([]byte, len(data))
	copy(orig, data)
	p := &Packet{Channel: byte(ch), Data: data}
	var buf bytes.Buffer
	symapi.Assert(p.Write(&buf, table) == nil, "write-ok")
	out := buf.Bytes()
	symapi.Assert(len(out) == 4+len(orig), "frame-length")
	symapi.Assert(out[0] == '$' && int(out[1]) == table[ch] && int(out[2])<<8|int(out[3]) == len(orig), "frame-prefix")
	buf.WriteString("RTSP")
	r := bufio.NewReaderSize(bytes.NewReader(buf.Bytes()), 16)
	got, err := ReadPacket(r, table)
	symapi.Assert(err == nil && got != nil, "read-ok")
	symapi.Assert(int(got.Channel) == ch, "channel-equal")
	symapi.Assert(verifEqBytes(got.Data, orig), "payload-equal")
	if ch == ChannelVideo || ch == ChannelAudio {
		symapi.Assert(got.PayloadOffset == 12 && verifEqBytes(got.Payload(), orig[12:]), "rtp-payload-offset")
		symapi.Assert(got.SequenceNumber == uint16(orig[2])<<8|uint16(orig[3]), "rtp-sequence-number")
		symapi.Assert(got.Timestamp == uint32(orig[4])<<24|uint32(orig[5])<<16|uint32(orig[6])<<8|uint32(orig[7]), "rtp-timestamp")
	}
	rest := make([]byte, 4)
	k, _ := io.ReadFull(r, rest)
	_, eof := r.ReadByte()
	symapi.Assert(k == 4 && string(rest) == "RTSP" && eof != nil, "positioned-at-next-message")
	symapi.Reach("end")
}

// VerifFrameUnsubscribed: a channel mapped outside 0..255 writes nothing; an unknown channel errors.
func VerifFrameUnsubscribed() {
	v := symapi.Int("mapped")
	symapi.Assume(v < 0 || v > 255)
	table := []int{v, v, v, v}
	ch := symapi.Byte("ch")
	p := &Packet{Channel: ch, Data: symapi.Bytes("d", 2)}
	var buf bytes.Buffer
	err := p.Write(&buf, table)
	symapi.Assert(buf.Len() == 0, "nothing-written")
	symapi.Assert((err != nil) == (ch >= ChannelCount), "error-iff-unknown-channel")
	symapi.Reach("end")
}

// VerifFrameGarbage: arbitrary bytes to ReadPacket: error or packet, never a panic.
func VerifFrameGarbage() {
	N := symapi.Param("NG", 8)
	b := symapi.Bytes("b", symapi.IntRange("n", 0, N))
	table := []int{0, 1, 2, 3}
	r := bufio.NewReaderSize(bytes.NewReader(b), 16)
	p, err := ReadPacket(r, table)
	symapi.Assert((p == nil) == (err != nil), "packet-xor-error")
	symapi.Reach("end")
}

// VerifFrameChannelLookup: a frame read from the wire is attributed to track i exactly when
// the session mapped track i to the frame's channel byte; tracks that are not set up (-1)
// match no wire channel, and a frame on an unmapped channel is an error that still consumes
// exactly that frame.
func VerifFrameChannelLookup() {
	var table []int
	for i := 0; i < 4; i++ {
		if symapi.Bool("mapped") {
			table = append(table, int(symapi.Byte("c")))
		} else {
			table = append(table, -1)
		}
	}
	c := symapi.Byte("wire")
	frame := []byte{'$', c, 0, 12, 0x80, 96, 0, 1, 0, 0, 0, 2, 0, 0, 0, 3, 'R', 'T', 'S', 'P'}
	r := bufio.NewReaderSize(bytes.NewReader(frame), 16)
	got, err := ReadPacket(r, table)
	want := -1
	for i, v := range table {
		if v == int(c) {
			want = i
			break
		}
	}
	if want < 0 {
		symapi.Assert(err != nil && got == nil, "frame-on-unmapped-channel-is-an-error")
	} else {
		symapi.Assert(err == nil && got != nil && int(got.Channel) == want, "frame-attributed-to-the-mapped-track")
	}
	rest := make([]byte, 4)
	k, _ := io.ReadFull(r, rest)
	symapi.Assert(k == 4 && string(rest) == "RTSP", "positioned-at-next-message")
	symapi.Reach("end")
}

// VerifFrameSizes (C13 / C14): an interleaved frame of every size class - around typical MTUs,
// internal buffer sizes and the 16-bit limit - is written as its 4-byte prefix followed by
// exactly its payload, to a writer that receives it in one or several writes.
func VerifFrameSizes() {
	n := []int{12, 255, 256, 1399, 1400, 1460, 1472, 1496, 1497, 1498, 1499, 1500, 1501, 1504, 2048, 4096, 8192, 65535}[symapi.Choose("size", 18)]
	data := make([]byte, n)
	for i := range data {
		data[i] = byte(i%251) + 1
	}
	data[0] = 0x80
	data[n-1] = symapi.Byte("last")
	ch := symapi.Byte("wireChannel")
	p := &Packet{Channel: ChannelVideo, Data: data}
	var buf bytes.Buffer
	symapi.Assert(p.Write(&buf, []int{int(ch), int(ch) + 1, -1, -1}) == nil, "write-ok")
	out := buf.Bytes()
	symapi.Assert(len(out) == 4+n, "frame-is-prefix-plus-whole-payload")
	symapi.Assert(out[0] == '$' && out[1] == ch && int(out[2])<<8|int(out[3]) == n, "frame-prefix")
	symapi.Assert(out[4] == 0x80 && out[4+n-1] == data[n-1], "payload-first-and-last-byte")
	for i := 1; i < n-1; i += 97 {
		symapi.Assert(out[4+i] == data[i], "payload-bytes")
	}
	symapi.Reach("end")
}
