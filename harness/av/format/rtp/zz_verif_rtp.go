package rtp

import (
	"github.com/cnotch/ipchub/av/codec"
	"github.com/cnotch/ipchub/zzverif/symapi"
)

type verifRecWriter struct{ frames []*codec.Frame }

func (w *verifRecWriter) WriteFrame(f *codec.Frame) error {
	w.frames = append(w.frames, f)
	return nil
}

func verifEqBytes(a, b []byte) bool {
	if len(a) != len(b) {
		return false
	}
	for i := range a {
		if a[i] != b[i] {
			return false
		}
	}
	return true
}

func verifNewH264(w codec.FrameWriter) *h264Depacketizer {
	dp := &h264Depacketizer{
		meta:      &codec.VideoMeta{Codec: "H264", ClockRate: 90000, Sps: []byte{0x67, 1, 2, 3}, Pps: []byte{0x68, 1}},
		fragments: make([]*Packet, 0, 16),
		metaReady: true,
		w:         w,
	}
	dp.syncClock.RTPTimeUnit = 1e9 / 90000.0
	return dp
}

func verifNewH265(w codec.FrameWriter) *h265Depacketizer {
	dp := &h265Depacketizer{
		meta:      &codec.VideoMeta{Codec: "H265", ClockRate: 90000, Vps: []byte{0x40, 1, 2}, Sps: []byte{0x42, 1, 2, 3}, Pps: []byte{0x44, 1}},
		fragments: make([]*Packet, 0, 16),
		metaReady: true,
		w:         w,
	}
	dp.syncClock.RTPTimeUnit = 1e9 / 90000.0
	return dp
}

func verifNewAac(w codec.FrameWriter) *aacDepacketizer {
	dp := &aacDepacketizer{
		meta:        &codec.AudioMeta{Codec: "AAC", SampleRate: 44100, Channels: 2},
		w:           w,
		sizeLength:  13,
		indexLength: 3,
	}
	dp.syncClock.RTPTimeUnit = 1e9 / 44100.0
	return dp
}

func verifPacket(name string, ch byte, n int) *Packet {
	p := &Packet{Channel: ch, Data: symapi.Bytes(name, n)}
	p.SequenceNumber = symapi.Uint16(name + ".seq")
	p.Timestamp = symapi.Uint32(name + ".ts")
	return p
}

// ---------------- C07: arbitrary payloads never panic, later good data still converted ----------------

func VerifH264DepackGarbage() {
	N := symapi.Param("N", 8)
	w := &verifRecWriter{}
	dp := verifNewH264(w)
	// arbitrary prior state: optionally one earlier fragment
	if symapi.Bool("prior") {
		dp.Depacketize(verifPacket("f0", ChannelVideo, symapi.IntRange("n0", 3, 4)))
	}
	dp.Depacketize(verifPacket("p", ChannelVideo, symapi.IntRange("n", 0, N)))
	k := len(w.frames)
	good := &Packet{Channel: ChannelVideo, Data: []byte{0x65, 0x88, 0x84, 0x21}}
	dp.Depacketize(good)
	symapi.Assert(len(w.frames) == k+1, "good-nal-after-garbage-emitted")
	symapi.Assert(verifEqBytes(w.frames[k].Payload, good.Data), "good-nal-after-garbage-intact")
	symapi.Reach("end")
}

func VerifH265DepackGarbage() {
	N := symapi.Param("N", 8)
	w := &verifRecWriter{}
	dp := verifNewH265(w)
	if symapi.Bool("prior") {
		dp.Depacketize(verifPacket("f0", ChannelVideo, symapi.IntRange("n0", 3, 5)))
	}
	dp.Depacketize(verifPacket("p", ChannelVideo, symapi.IntRange("n", 0, N)))
	k := len(w.frames)
	good := &Packet{Channel: ChannelVideo, Data: []byte{19 << 1, 0x01, 0xaf, 0x21}}
	dp.Depacketize(good)
	symapi.Assert(len(w.frames) == k+1, "good-nal-after-garbage-emitted")
	symapi.Assert(verifEqBytes(w.frames[k].Payload, good.Data), "good-nal-after-garbage-intact")
	symapi.Reach("end")
}

func VerifAacDepackGarbage() {
	N := symapi.Param("N", 8)
	w := &verifRecWriter{}
	dp := verifNewAac(w)
	dp.Depacketize(verifPacket("p", ChannelAudio, symapi.IntRange("n", 0, N)))
	k := len(w.frames)
	// one AU of 3 bytes: AU-headers-length 16 bits, one header size=3
	good := &Packet{Channel: ChannelAudio, Data: []byte{0x00, 0x10, 0x00, 3 << 3, 0xaa, 0xbb, 0xcc}}
	dp.Depacketize(good)
	symapi.Assert(len(w.frames) == k+1, "good-au-after-garbage-emitted")
	symapi.Assert(verifEqBytes(w.frames[k].Payload, []byte{0xaa, 0xbb, 0xcc}), "good-au-after-garbage-intact")
	symapi.Reach("end")
}

func VerifRtcpGarbage() {
	N := symapi.Param("NRTCP", 24)
	w := &verifRecWriter{}
	dp := verifNewH264(w)
	p := &Packet{Channel: ChannelVideoControl, Data: symapi.Bytes("rtcp", symapi.IntRange("n", 0, N))}
	dp.Control(p)
	good := &Packet{Channel: ChannelVideo, Data: []byte{0x65, 0x88, 0x84, 0x21}}
	dp.Depacketize(good)
	symapi.Assert(len(w.frames) == 1, "good-nal-after-rtcp-emitted")
	symapi.Reach("end")
}

// twin (C07): claims a truncated STAP-A still yields a frame - must be violated
func VerifDepackTwin() {
	w := &verifRecWriter{}
	dp := verifNewH264(w)
	b := symapi.Bytes("b", 2)
	dp.Depacketize(&Packet{Channel: ChannelVideo, Data: []byte{24, 0, 9, b[0], b[1]}})
	symapi.Assert(len(w.frames) == 1, "twin-truncated-unit-emitted")
}

// VerifWirePacketGarbage (C07): a whole RTP packet as it arrives from the publisher - header
// bits (padding, extension, CSRC count, marker), sequence, timestamp and payload all
// symbolic - goes through the same Unmarshal as ReadPacket and then into the depacketizer;
// nothing panics and a following good unit is still converted.
func VerifWirePacketGarbage() {
	N := symapi.Param("NW", 4)
	n := symapi.IntRange("n", 0, N)
	data := symapi.Bytes("w", 12+n)
	symapi.Assume(data[0]>>6 == 2) // RTP version 2; P, X and CC bits are free
	p := &Packet{Channel: ChannelVideo, Data: data}
	if symapi.Bool("audio") {
		p.Channel = ChannelAudio
	}
	if err := p.Header.Unmarshal(p.Data); err != nil {
		symapi.Reach("rejected") // ReadPacket returns the error: the packet never enters the stream
		return
	}
	_ = p.Payload() // what the caches and depacketizers look at
	w := &verifRecWriter{}
	if p.Channel == ChannelVideo {
		verifNewH264(w).Depacketize(p)
		verifNewH265(w).Depacketize(p)
	} else {
		verifNewAac(w).Depacketize(p)
	}
	symapi.Reach("end")
}

// VerifFuRecovery (C07, inductive step over the fragment buffer): from a depacketizer whose
// fragment buffer already holds ANY number of continuation fragments of an unterminated
// fragmentation unit (a hostile or broken sender; sizes drawn from classes up to 70000, the
// state is constructed directly instead of by feeding that many packets), a following
// well-formed fragmented NAL and a following single NAL are both converted intact.
func VerifFuRecovery() {
	hevc := symapi.Bool("hevc")
	held := []int{0, 1, 2, 15, 16, 17, 255, 1023, 1024, 1025, 4096, 70000}[symapi.Choose("heldFragments", 12)]
	w := &verifRecWriter{}
	seq := symapi.Uint16("seq")
	ts := symapi.Uint32("ts")
	var dp Depacketizer
	var frags [][]byte
	var nal, single []byte
	if hevc {
		d := verifNewH265(w)
		for i := 0; i < held; i++ {
			d.fragments = append(d.fragments, verifPkt([]byte{49 << 1, 1, 1, 0xee}, seq-uint16(held-i), ts))
		}
		dp = d
		nal = []byte{1 << 1, 1, 0xa1, 0xa2, 0xa3}
		frags = verifFu265(nal, []int{1})
		single = []byte{19 << 1, 0x01, 0xaf, 0x21}
	} else {
		d := verifNewH264(w)
		for i := 0; i < held; i++ {
			d.fragments = append(d.fragments, verifPkt([]byte{0x7c, 0x01, 0xee}, seq-uint16(held-i), ts))
		}
		dp = d
		nal = []byte{0x41, 0xa1, 0xa2, 0xa3}
		frags = verifFuA(nal, []int{1})
		single = []byte{0x65, 0x88, 0x84, 0x21}
	}
	for i, f := range frags {
		dp.Depacketize(verifPkt(f, seq+uint16(i), ts+3000))
	}
	symapi.Assert(len(w.frames) == 1, "well-formed-fragmented-nal-after-an-unterminated-unit-emitted")
	symapi.Assert(verifEqBytes(w.frames[0].Payload, nal), "fragmented-nal-intact")
	dp.Depacketize(verifPkt(single, seq+2, ts+6000))
	symapi.Assert(len(w.frames) == 2 && verifEqBytes(w.frames[1].Payload, single), "single-nal-after-that-intact")
	symapi.Reach("end")
}
