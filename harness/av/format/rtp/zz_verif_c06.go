package rtp

import (
	"bufio"
	"bytes"
	"github.com/cnotch/ipchub/av/codec"
	"github.com/cnotch/ipchub/zzverif/symapi"
)

// ---------------- C06: depacketisation reproduces the sender's units ----------------

// verifNal264 returns a symbolic H.264 NAL of n bytes whose type is a single-NAL type
// (1..23) other than filler data (12), which the depacketizer drops by design.
func verifNal264(name string, n int) []byte {
	b := symapi.Bytes(name, n)
	t := b[0] & 0x1f
	symapi.Assume(t >= 1 && t <= 23 && t != 12)
	symapi.Assume(b[0]&0x80 == 0)
	return b
}

// verifNal265 returns a symbolic H.265 NAL (2-byte header) with type 0..47.
func verifNal265(name string, n int) []byte {
	b := symapi.Bytes(name, n)
	t := (b[0] >> 1) & 0x3f
	symapi.Assume(t <= 47)
	return b
}

func verifPkt(data []byte, seq uint16, ts uint32) *Packet {
	p := &Packet{Channel: ChannelVideo, Data: data}
	p.SequenceNumber = seq
	p.Timestamp = ts
	return p
}

func verifCopy(b []byte) []byte {
	c := make([]byte, len(b))
	copy(c, b)
	return c
}

func VerifH264Single() {
	N := symapi.Param("N", 6)
	nal := verifNal264("nal", symapi.IntRange("n", 3, N))
	orig := verifCopy(nal)
	w := &verifRecWriter{}
	dp := verifNewH264(w)
	dp.Depacketize(verifPkt(nal, symapi.Uint16("seq"), symapi.Uint32("ts")))
	symapi.Assert(len(w.frames) == 1, "single-one-frame")
	symapi.Assert(verifEqBytes(w.frames[0].Payload, orig), "single-bytes-identical")
	symapi.Assert(w.frames[0].MediaType == codec.MediaTypeVideo, "single-is-video")
	symapi.Reach("end")
}

// reference STAP-A packetiser (RFC 6184 5.7.1): header F=0, NRI=max NRI, type 24.
func verifStapA(nals [][]byte) []byte {
	nri := byte(0)
	for _, n := range nals {
		if n[0]&0x60 > nri {
			nri = n[0] & 0x60
		}
	}
	out := []byte{nri | 24}
	for _, n := range nals {
		out = append(out, byte(len(n)>>8), byte(len(n)))
		out = append(out, n...)
	}
	return out
}

func VerifH264Stap() {
	U := symapi.Param("U", 2)
	L := symapi.Param("L", 3)
	u := symapi.IntRange("u", 1, U)
	var nals [][]byte
	for i := 0; i < u; i++ {
		nals = append(nals, verifNal264("nal"+string(rune('0'+i)), symapi.IntRange("len"+string(rune('0'+i)), 1, L)))
	}
	pkt := verifStapA(nals)
	if len(pkt) < 3 {
		return
	}
	w := &verifRecWriter{}
	dp := verifNewH264(w)
	ts := symapi.Uint32("ts")
	// the packet may arrive cut short by 1..2 bytes: the last unit is then truncated and must
	// not be emitted (neither short nor padded); complete units before it may be
	if cut := symapi.IntRange("truncatedBy", 0, 2); cut > 0 {
		if cut >= len(pkt)-1 {
			return
		}
		dp.Depacketize(verifPkt(pkt[:len(pkt)-cut], symapi.Uint16("seq"), ts))
		symapi.Assert(len(w.frames) < u, "truncated-stap-unit-never-emitted")
		for i := 0; i < len(w.frames); i++ {
			symapi.Assert(verifEqBytes(w.frames[i].Payload, nals[i]), "stap-units-before-the-truncation-identical")
		}
		symapi.Reach("truncated")
		return
	}
	dp.Depacketize(verifPkt(pkt, symapi.Uint16("seq"), ts))
	symapi.Assert(len(w.frames) == u, "stap-frame-count")
	for i := 0; i < u && i < len(w.frames); i++ {
		symapi.Assert(verifEqBytes(w.frames[i].Payload, nals[i]), "stap-unit-bytes-identical")
		symapi.Assert(w.frames[i].Pts == w.frames[0].Pts, "stap-units-share-pts")
	}
	symapi.Reach("end")
}

// reference FU-A fragmenter: cuts nal[1:] at the given cut points.
func verifFuA(nal []byte, cuts []int) [][]byte {
	body := nal[1:]
	var frags [][]byte
	start := 0
	for i := 0; i <= len(cuts); i++ {
		end := len(body)
		if i < len(cuts) {
			end = cuts[i]
		}
		h := nal[0] & 0x1f
		if i == 0 {
			h |= 0x80
		}
		if i == len(cuts) {
			h |= 0x40
		}
		f := []byte{nal[0]&0xe0 | 28, h}
		f = append(f, body[start:end]...)
		frags = append(frags, f)
		start = end
	}
	return frags
}

// verifCuts chooses f-1 strictly increasing cut points in 1..n-1.
func verifCuts(n, f int) []int {
	var cuts []int
	lo := 1
	for i := 0; i < f-1; i++ {
		c := symapi.IntRange("cut"+string(rune('0'+i)), lo, n-(f-1-i))
		cuts = append(cuts, c)
		lo = c + 1
	}
	return cuts
}

func VerifH264Fu() {
	L := symapi.Param("L", 5)
	F := symapi.Param("F", 3)
	n := symapi.IntRange("n", 3, L)
	nal := verifNal264("nal", n)
	f := symapi.IntRange("f", 2, F)
	if f > n-1 {
		return
	}
	frags := verifFuA(nal, verifCuts(n-1, f))
	next := verifNal264("next", 3)
	w := &verifRecWriter{}
	dp := verifNewH264(w)
	seq := symapi.Uint16("seq")
	ts := symapi.Uint32("ts")
	sent := make([][]byte, len(frags))
	for i, fr := range frags {
		sent[i] = verifCopy(fr)
		dp.Depacketize(verifPkt(fr, seq+uint16(i), ts))
	}
	for i := range frags { // the same packet objects sit in the consumers' queues and the GOP cache
		symapi.Assert(verifEqBytes(frags[i], sent[i]), "published-packet-not-modified-by-reassembly")
	}
	dp.Depacketize(verifPkt(next, seq+uint16(len(frags)), ts+3000))
	symapi.Assert(len(w.frames) == 2, "fu-frame-count")
	symapi.Assert(verifEqBytes(w.frames[0].Payload, nal), "fu-reassembled-identical")
	symapi.Assert(verifEqBytes(w.frames[1].Payload, next), "fu-next-identical")
	symapi.Reach("end")
}

// VerifH264FuLoss: fragments are dropped according to a symbolic mask; every emitted
// frame must be one of the source units (never a truncated or spliced unit), and the
// following single NAL is still emitted.
func VerifH264FuLoss() {
	L := symapi.Param("L", 5)
	F := symapi.Param("F", 3)
	n := symapi.IntRange("n", 4, L)
	nal := verifNal264("nal", n)
	f := symapi.IntRange("f", 2, F)
	if f > n-1 {
		return
	}
	frags := verifFuA(nal, verifCuts(n-1, f))
	next := verifNal264("next", 3)
	w := &verifRecWriter{}
	dp := verifNewH264(w)
	seq := symapi.Uint16("seq")
	ts := symapi.Uint32("ts")
	dropped := 0
	// delivery order: optionally two adjacent fragments arrive swapped
	order := make([]int, len(frags))
	for i := range order {
		order[i] = i
	}
	swapAt := symapi.IntRange("swapAt", 0, len(frags)-1) // 0 = in order
	if swapAt > 0 {
		order[swapAt-1], order[swapAt] = order[swapAt], order[swapAt-1]
	}
	for _, i := range order {
		if symapi.Choose("drop"+string(rune('0'+i)), 2) == 1 {
			dropped++
			continue
		}
		dp.Depacketize(verifPkt(frags[i], seq+uint16(i), ts))
	}
	dp.Depacketize(verifPkt(next, seq+uint16(len(frags)), ts+3000))
	for _, fr := range w.frames {
		symapi.Assert(verifEqBytes(fr.Payload, nal) || verifEqBytes(fr.Payload, next), "fuloss-no-truncated-or-spliced-unit")
	}
	if dropped > 0 || swapAt > 0 {
		symapi.Assert(len(w.frames) == 1, "fuloss-incomplete-unit-dropped-whole")
	}
	symapi.Assert(len(w.frames) >= 1 && verifEqBytes(w.frames[len(w.frames)-1].Payload, next), "fuloss-next-unit-still-emitted")
	symapi.Reach("end")
}

// ---- H.265 ----

func VerifH265Single() {
	N := symapi.Param("N", 6)
	nal := verifNal265("nal", symapi.IntRange("n", 3, N))
	orig := verifCopy(nal)
	w := &verifRecWriter{}
	dp := verifNewH265(w)
	dp.Depacketize(verifPkt(nal, symapi.Uint16("seq"), symapi.Uint32("ts")))
	symapi.Assert(len(w.frames) == 1, "single-one-frame")
	symapi.Assert(verifEqBytes(w.frames[0].Payload, orig), "single-bytes-identical")
	symapi.Reach("end")
}

func VerifH265Ap() {
	U := symapi.Param("U", 2)
	L := symapi.Param("L", 3)
	u := symapi.IntRange("u", 1, U)
	var nals [][]byte
	pkt := []byte{48 << 1, 1}
	for i := 0; i < u; i++ {
		n := verifNal265("nal"+string(rune('0'+i)), symapi.IntRange("len"+string(rune('0'+i)), 2, L))
		nals = append(nals, n)
		pkt = append(pkt, byte(len(n)>>8), byte(len(n)))
		pkt = append(pkt, n...)
	}
	w := &verifRecWriter{}
	dp := verifNewH265(w)
	if cut := symapi.IntRange("truncatedBy", 0, 2); cut > 0 {
		dp.Depacketize(verifPkt(pkt[:len(pkt)-cut], symapi.Uint16("seq"), symapi.Uint32("ts")))
		symapi.Assert(len(w.frames) < u, "truncated-ap-unit-never-emitted")
		for i := 0; i < len(w.frames); i++ {
			symapi.Assert(verifEqBytes(w.frames[i].Payload, nals[i]), "ap-units-before-the-truncation-identical")
		}
		symapi.Reach("truncated")
		return
	}
	dp.Depacketize(verifPkt(pkt, symapi.Uint16("seq"), symapi.Uint32("ts")))
	symapi.Assert(len(w.frames) == u, "ap-frame-count")
	for i := 0; i < u && i < len(w.frames); i++ {
		symapi.Assert(verifEqBytes(w.frames[i].Payload, nals[i]), "ap-unit-bytes-identical")
		symapi.Assert(w.frames[i].Pts == w.frames[0].Pts, "ap-units-share-pts")
	}
	symapi.Reach("end")
}

func verifFu265(nal []byte, cuts []int) [][]byte {
	body := nal[2:]
	var frags [][]byte
	start := 0
	t := (nal[0] >> 1) & 0x3f
	for i := 0; i <= len(cuts); i++ {
		end := len(body)
		if i < len(cuts) {
			end = cuts[i]
		}
		h := t
		if i == 0 {
			h |= 0x80
		}
		if i == len(cuts) {
			h |= 0x40
		}
		f := []byte{nal[0]&0x81 | 49<<1, nal[1], h}
		f = append(f, body[start:end]...)
		frags = append(frags, f)
		start = end
	}
	return frags
}

func VerifH265FuLoss() {
	L := symapi.Param("L", 6)
	F := symapi.Param("F", 3)
	n := symapi.IntRange("n", 5, L)
	nal := verifNal265("nal", n)
	f := symapi.IntRange("f", 2, F)
	if f > n-2 {
		return
	}
	frags := verifFu265(nal, verifCuts(n-2, f))
	next := verifNal265("next", 3)
	w := &verifRecWriter{}
	dp := verifNewH265(w)
	seq := symapi.Uint16("seq")
	ts := symapi.Uint32("ts")
	dropped := 0
	order := make([]int, len(frags))
	for i := range order {
		order[i] = i
	}
	swapAt := symapi.IntRange("swapAt", 0, len(frags)-1) // 0 = in order
	if swapAt > 0 {
		order[swapAt-1], order[swapAt] = order[swapAt], order[swapAt-1]
	}
	sent := make([][]byte, len(frags))
	for i := range frags {
		sent[i] = verifCopy(frags[i])
	}
	for _, i := range order {
		if symapi.Choose("drop"+string(rune('0'+i)), 2) == 1 {
			dropped++
			continue
		}
		dp.Depacketize(verifPkt(frags[i], seq+uint16(i), ts))
	}
	dp.Depacketize(verifPkt(next, seq+uint16(len(frags)), ts+3000))
	for i := range frags { // the same packet objects sit in the consumers' queues and the GOP cache
		symapi.Assert(verifEqBytes(frags[i], sent[i]), "published-packet-not-modified-by-reassembly")
	}
	for _, fr := range w.frames {
		symapi.Assert(verifEqBytes(fr.Payload, nal) || verifEqBytes(fr.Payload, next), "fuloss-no-truncated-or-spliced-unit")
	}
	if dropped > 0 || swapAt > 0 {
		symapi.Assert(len(w.frames) == 1, "fuloss-incomplete-unit-dropped-whole")
	} else {
		symapi.Assert(len(w.frames) == 2 && verifEqBytes(w.frames[0].Payload, nal), "fu-reassembled-identical")
	}
	symapi.Assert(len(w.frames) >= 1 && verifEqBytes(w.frames[len(w.frames)-1].Payload, next), "fuloss-next-unit-still-emitted")
	symapi.Reach("end")
}

// ---- AAC (RFC 3640 AAC-hbr) ----

func VerifAacAus() {
	A := symapi.Param("A", 2)
	L := symapi.Param("L", 3)
	a := symapi.IntRange("a", 1, A)
	var aus [][]byte
	hdr := []byte{byte((a * 16) >> 8), byte(a * 16)}
	var body []byte
	for i := 0; i < a; i++ {
		au := symapi.Bytes("au"+string(rune('0'+i)), symapi.IntRange("len"+string(rune('0'+i)), 1, L))
		aus = append(aus, au)
		sz := len(au) << 3
		hdr = append(hdr, byte(sz>>8), byte(sz))
		body = append(body, au...)
	}
	pkt := append(hdr, body...)
	w := &verifRecWriter{}
	dp := verifNewAac(w)
	p := &Packet{Channel: ChannelAudio, Data: pkt}
	p.Timestamp = symapi.Uint32("ts")
	// the packet may arrive cut short (or be one fragment of a larger AU): an AU whose
	// announced size exceeds the bytes present must not be emitted, neither short nor padded
	if cut := symapi.IntRange("truncatedBy", 0, 2); cut > 0 {
		if cut > len(aus[a-1]) {
			return
		}
		p.Data = pkt[:len(pkt)-cut]
		dp.Depacketize(p)
		symapi.Assert(len(w.frames) < a, "truncated-au-never-emitted")
		for i := 0; i < len(w.frames); i++ {
			symapi.Assert(verifEqBytes(w.frames[i].Payload, aus[i]), "aus-before-the-truncation-identical")
		}
		symapi.Reach("truncated")
		return
	}
	dp.Depacketize(p)
	symapi.Assert(len(w.frames) == a, "aac-frame-count")
	for i := 0; i < a && i < len(w.frames); i++ {
		symapi.Assert(verifEqBytes(w.frames[i].Payload, aus[i]), "aac-au-bytes-identical")
		symapi.Assert(w.frames[i].Pts == w.frames[i].Dts, "aac-pts-equals-dts")
		symapi.Assert(w.frames[i].MediaType == codec.MediaTypeAudio, "aac-is-audio")
	}
	symapi.Reach("end")
}

// twin: wrong oracle (expects FU header byte to be kept) must be violated
func VerifH264FuTwin() {
	nal := verifNal264("nal", 4)
	frags := verifFuA(nal, []int{1})
	w := &verifRecWriter{}
	dp := verifNewH264(w)
	for i, fr := range frags {
		dp.Depacketize(verifPkt(fr, uint16(i), 0))
	}
	symapi.Assert(len(w.frames) == 1 && w.frames[0].Payload[0] == frags[0][1], "twin-wrong-header")
}

// verifSR builds an RTCP sender report carrying the given NTP seconds and RTP time.
func verifSR(ntpSec uint32, rtpTime uint32) *Packet {
	d := make([]byte, 28)
	d[0], d[1], d[3] = 0x80, 200, 6
	d[8], d[9], d[10], d[11] = byte(ntpSec>>24), byte(ntpSec>>16), byte(ntpSec>>8), byte(ntpSec)
	d[16], d[17], d[18], d[19] = byte(rtpTime>>24), byte(rtpTime>>16), byte(rtpTime>>8), byte(rtpTime)
	return &Packet{Channel: ChannelVideoControl, Data: d}
}

// VerifPtsAcrossSenderReports: presentation-time differences equal RTP-timestamp differences
// (in the stream's clock rate) whatever RTCP sender reports arrive in between, and units of
// one RTP timestamp share one presentation time. Time stamps are drawn from concrete classes
// (float64 arithmetic is evaluated exactly, not solved); which reports arrive, and where, is
// symbolic.
func VerifPtsAcrossSenderReports() {
	w := &verifRecWriter{}
	dp := verifNewH264(w)
	base := []uint32{0, 90000, 0xffff0000, 0xffffffff - 2*3000 + 1000}[symapi.Choose("rtpBase", 4)]
	step := []uint32{3000, 3600, 90000}[symapi.Choose("step", 3)]
	nal := []byte{0x41, 1, 2, 3}
	srAt := [3]bool{symapi.Bool("srBeforeFirst"), symapi.Bool("srBeforeSecond"), symapi.Bool("srBeforeThird")}
	var pts []int64
	for i := 0; i < 3; i++ {
		if srAt[i] {
			// the sender's report: its RTP time is that of "now", a little ahead of the media
			dp.Control(verifSR(0x83aa7e80+1000+uint32(i)*7, base+uint32(i)*step+450000))
		}
		before := len(w.frames)
		dp.Depacketize(verifPkt(append([]byte(nil), nal...), uint16(i), base+uint32(i)*step))
		if i == 1 { // a second unit of the same access unit (same RTP timestamp)
			dp.Depacketize(verifPkt(append([]byte(nil), nal...), 100, base+uint32(i)*step))
		}
		symapi.Assert(len(w.frames) > before, "unit-emitted")
		for _, f := range w.frames[before:] {
			symapi.Assert(f.Pts == w.frames[before].Pts, "units-of-one-rtp-timestamp-share-one-presentation-time")
		}
		pts = append(pts, w.frames[before].Pts)
	}
	unit := float64(1e9) / 90000
	want := int64(float64(step) * unit)
	for i := 1; i < 3; i++ {
		d := pts[i] - pts[i-1]
		symapi.Assert(d >= want-1 && d <= want+1, "presentation-time-difference-equals-rtp-timestamp-difference")
	}
	// a B picture follows in transmission order with an EARLIER presentation time (RTP
	// timestamp between the last two, possibly on the other side of the 32-bit wrap)
	if symapi.Bool("reorderedPicture") {
		before := len(w.frames)
		back := step / 2
		dp.Depacketize(verifPkt(append([]byte(nil), nal...), 200, base+2*step-back))
		symapi.Assert(len(w.frames) > before, "unit-emitted")
		d := w.frames[before].Pts - pts[2]
		wantBack := -int64(float64(back) * unit)
		symapi.Assert(d >= wantBack-1 && d <= wantBack+1, "earlier-presentation-time-of-a-reordered-picture-equals-the-rtp-difference")
	}
	symapi.Reach("end")
}

// VerifWireHeaderVariants (C06): an interleaved frame as a publisher may legally send it -
// 0..2 CSRC entries, an optional header extension of 0..2 words, CSRC and opaque extension bytes symbolic -
// read by ReadPacket and depacketized: sequence number, time stamp and the NAL are those of
// the packet; CSRC entries and header extension never leak into the access unit.
func VerifWireHeaderVariants() {
	cc := symapi.IntRange("cc", 0, 2)
	ext := symapi.Bool("x")
	xw := 0
	if ext {
		xw = symapi.IntRange("xw", 0, 2)
	}
	seq := symapi.Uint16("seq")
	ts := symapi.Uint32("ts")
	b := symapi.Bytes("nal", 3)
	nal := []byte{0x65, b[0], b[1], b[2]}
	data := []byte{0x80 | byte(cc), 96, byte(seq >> 8), byte(seq), byte(ts >> 24), byte(ts >> 16), byte(ts >> 8), byte(ts), 1, 2, 3, 4}
	data = append(data, symapi.Bytes("csrc", 4*cc)...)
	if ext {
		data[0] |= 0x10
		if symapi.Bool("oneByteElements") { // RFC 8285 one-byte elements: id 1, one data byte, padding
			data = append(data, 0xBE, 0xDE, 0, byte(xw))
			for k := 0; k < xw; k++ {
				data = append(data, 0x10, symapi.Byte("xval"), 0, 0)
			}
		} else { // an opaque profile: the extension words are arbitrary
			data = append(data, 0xAB, 0xAC, 0, byte(xw))
			data = append(data, symapi.Bytes("xdata", 4*xw)...)
		}
	}
	data = append(data, nal...)
	frame := append([]byte{'$', 0, byte(len(data) >> 8), byte(len(data))}, data...)
	p, err := ReadPacket(bufio.NewReaderSize(bytes.NewReader(frame), 16), []int{0, 1, 2, 3})
	symapi.Assert(err == nil && p != nil, "legal-rtp-header-accepted")
	symapi.Assert(p.SequenceNumber == seq && p.Timestamp == ts, "sequence-and-timestamp-of-the-packet")
	symapi.Assert(verifEqBytes(p.Payload(), nal), "payload-starts-after-csrc-list-and-header-extension")
	w := &verifRecWriter{}
	verifNewH264(w).Depacketize(p)
	symapi.Assert(len(w.frames) == 1 && verifEqBytes(w.frames[0].Payload, nal), "access-unit-is-the-nal-sent")
	symapi.Reach("end")
}
