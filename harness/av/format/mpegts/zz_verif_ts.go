package mpegts

import (
	"bytes"

	"github.com/cnotch/ipchub/av/codec"
	"github.com/cnotch/ipchub/av/codec/aac"
	"github.com/cnotch/ipchub/zzverif/symapi"
	"github.com/cnotch/xlog"
)

type verifRec struct {
	buf    []byte
	writes int
}

func (r *verifRec) Write(p []byte) (int, error) {
	r.buf = append(r.buf, p...)
	r.writes++
	return len(p), nil
}

type verifFrameRec struct{ frames []*Frame }

func (r *verifFrameRec) WriteMpegtsFrame(f *Frame) error {
	r.frames = append(r.frames, f)
	return nil
}

const verifMask33 = int64(1)<<33 - 1

// verifTimestamp decodes a 5-byte PTS/DTS field (ISO 13818-1 2.4.3.7).
func verifTimestamp(b []byte) (prefix byte, v int64, markers bool) {
	prefix = b[0] >> 4
	v = int64(b[0]>>1&7)<<30 | int64((uint16(b[1])<<8|uint16(b[2]))>>1)<<15 | int64((uint16(b[3])<<8|uint16(b[4]))>>1)
	markers = b[0]&1 == 1 && b[2]&1 == 1 && b[4]&1 == 1
	return
}

// VerifTSWriter: one frame through the real writer, then an independent demultiplexer.
func VerifTSWriter() {
	NMAX := symapi.Param("NMAX", 190)
	var h int
	if symapi.Param("HFULL", 0) == 1 {
		h = symapi.IntRange("h", 0, 14)
	} else {
		h = []int{0, 7}[symapi.Choose("hsel", 2)]
	}
	n := symapi.IntRange("n", 1, NMAX)
	audio := symapi.Bool("audio")
	f := &Frame{Pid: tsVideoPid, StreamID: tsVideoAvc, Pts: symapi.Int64("pts"), Dts: symapi.Int64("dts"),
		Header: symapi.Bytes("hdr", h), Payload: symapi.Bytes("pay", n)}
	if audio {
		f.Pid, f.StreamID = tsAudioPid, tsAudioAac
	}
	f.key = symapi.Bool("key")
	vcc, acc := symapi.Int("vcc"), symapi.Int("acc")
	rec := &verifRec{}
	w := &Writer{w: rec, videoCC: vcc, audioCC: acc}
	err := w.WriteMpegtsFrame(f)
	symapi.Assert(err == nil, "no-error")
	out := rec.buf
	symapi.Assert(len(out)%188 == 0 && len(out) > 0, "whole-188-byte-packets")

	// expected elementary payload
	var want []byte
	want = append(want, f.Header...)
	want = append(want, f.Payload...)

	prevCC := vcc
	if audio {
		prevCC = acc
	}
	var got []byte
	np := len(out) / 188
	for i := 0; i < np; i++ {
		p := out[i*188 : (i+1)*188]
		symapi.Assert(p[0] == 0x47, "sync-byte")
		pid := int(p[1]&0x1f)<<8 | int(p[2])
		symapi.Assert(pid == f.Pid, "pid")
		symapi.Assert((p[1]&0x40 != 0) == (i == 0), "pusi-only-on-first-packet")
		symapi.Assert(p[1]&0xa0 == 0, "no-error-no-priority")
		symapi.Assert(int(p[3]&0x0f) == (prevCC+1+i)&0x0f, "continuity-counter")
		symapi.Assert(p[3]&0xc0 == 0, "not-scrambled")
		afc := p[3] >> 4 & 3
		symapi.Assert(afc == 1 || afc == 3, "payload-present")
		start := 4
		if afc == 3 {
			al := int(p[4])
			symapi.Assert(al <= 183, "adaptation-length-in-range")
			start = 5 + al
			if al > 0 {
				flags := p[5]
				stuffFrom := 6
				if i == 0 && f.key {
					symapi.Assert(flags == 0x50, "key-frame-random-access-and-pcr-flags")
					symapi.Assert(al >= 7, "pcr-fits")
					base := int64(p[6])<<25 | int64(p[7])<<17 | int64(p[8])<<9 | int64(p[9])<<1 | int64(p[10]>>7)
					symapi.Assert(base == f.Dts&verifMask33, "pcr-base-equals-dts")
					symapi.Assert(p[10]&0x7e == 0x7e, "pcr-reserved-bits")
					symapi.Assert(p[10]&1 == 0 && p[11] == 0, "pcr-extension-zero")
					stuffFrom = 12
				} else {
					symapi.Assert(flags == 0, "no-flags-on-stuffing-only-adaptation")
				}
				_ = stuffFrom // the value of adaptation-field stuffing bytes is not part of the property (decoders discard them)
			}
			if !(i == 0 && f.key) {
				symapi.Assert(i == np-1, "stuffing-only-in-last-packet")
			}
		} else {
			symapi.Assert(!(i == 0 && f.key), "key-frame-has-adaptation-field")
		}
		if i < np-1 {
			// only the last packet may carry stuffing beyond the PCR
			if afc == 3 {
				symapi.Assert(int(p[4]) == 7, "non-last-packet-adaptation-is-pcr-only")
			}
		}
		got = append(got, p[start:]...)
	}
	// PES header
	symapi.Assert(len(got) >= 14, "pes-header-present")
	symapi.Assert(got[0] == 0 && got[1] == 0 && got[2] == 1, "pes-start-code")
	symapi.Assert(int(got[3]) == f.StreamID, "pes-stream-id")
	hasDts := f.Dts != f.Pts
	hl := 5
	if hasDts {
		hl = 10
	}
	pesLen := int(got[4])<<8 | int(got[5])
	symapi.Assert(pesLen == len(want)+hl+3, "pes-length")
	symapi.Assert(got[6] == 0x80, "pes-marker-byte")
	if hasDts {
		symapi.Assert(got[7] == 0xc0, "pes-flags-pts-dts")
	} else {
		symapi.Assert(got[7] == 0x80, "pes-flags-pts-only")
	}
	symapi.Assert(int(got[8]) == hl, "pes-header-data-length")
	pfx, v, mk := verifTimestamp(got[9:14])
	symapi.Assert(mk, "pts-marker-bits")
	symapi.Assert(v == f.Pts&verifMask33, "pts-decodes-to-supplied-value")
	if hasDts {
		symapi.Assert(pfx == 3, "pts-prefix-0011")
		pfx2, v2, mk2 := verifTimestamp(got[14:19])
		symapi.Assert(mk2 && pfx2 == 1, "dts-prefix-and-markers")
		symapi.Assert(v2 == f.Dts&verifMask33, "dts-decodes-to-supplied-value")
	} else {
		symapi.Assert(pfx == 2, "pts-prefix-0010")
	}
	body := got[9+hl:]
	symapi.Assert(len(body) == len(want), "es-length")
	for i := 0; i < len(want) && i < len(body); i++ {
		symapi.Assert(body[i] == want[i], "es-bytes-identical")
	}
	// counters advanced per PID only
	if audio {
		symapi.Assert(w.audioCC == acc+np && w.videoCC == vcc, "counter-per-pid")
	} else {
		symapi.Assert(w.videoCC == vcc+np && w.audioCC == acc, "counter-per-pid")
	}
	symapi.Reach("end")
}

// VerifTSWriterTwin: expects the continuity counter not to advance: must be violated.
func VerifTSWriterTwin() {
	f := &Frame{Pid: tsVideoPid, StreamID: tsVideoAvc, Pts: symapi.Int64("pts"), Dts: symapi.Int64("dts"), Payload: symapi.Bytes("pay", 3)}
	rec := &verifRec{}
	cc := symapi.Int("vcc")
	w := &Writer{w: rec, videoCC: cc}
	w.WriteMpegtsFrame(f)
	symapi.Assert(int(rec.buf[3]&0x0f) == cc&0x0f, "twin-cc-not-advanced")
}

// VerifTSPsi: the PAT/PMT block written by NewWriter.
func verifCrc32Mpeg(b []byte) uint32 {
	crc := uint32(0xffffffff)
	for _, x := range b {
		crc ^= uint32(x) << 24
		for k := 0; k < 8; k++ {
			if crc&0x80000000 != 0 {
				crc = crc<<1 ^ 0x04c11db7
			} else {
				crc <<= 1
			}
		}
	}
	return crc
}

func VerifTSPsi() {
	rec := &verifRec{}
	_, err := NewWriter(rec)
	symapi.Assert(err == nil, "no-error")
	out := rec.buf
	symapi.Assert(len(out) == 376, "two-packets")
	pat, pmt := out[:188], out[188:]
	symapi.Assert(pat[0] == 0x47 && pat[1] == 0x40 && pat[2] == 0 && pat[3]&0xf0 == 0x10, "pat-ts-header")
	symapi.Assert(pat[4] == 0, "pat-pointer")
	sec := pat[5:]
	symapi.Assert(sec[0] == 0, "pat-table-id")
	sl := int(sec[1]&0x0f)<<8 | int(sec[2])
	symapi.Assert(sl == 13, "pat-one-program")
	symapi.Assert(int(sec[8])<<8|int(sec[9]) == 1, "program-number-1")
	pmtPid := int(sec[10]&0x1f)<<8 | int(sec[11])
	symapi.Assert(pmtPid == 0x1001, "pmt-pid")
	crc := uint32(sec[12])<<24 | uint32(sec[13])<<16 | uint32(sec[14])<<8 | uint32(sec[15])
	symapi.Assert(verifCrc32Mpeg(sec[:12]) == crc, "pat-crc")
	for i := 21; i < 188; i++ {
		symapi.Assert(pat[i] == 0xff, "pat-stuffing")
	}
	symapi.Assert(pmt[0] == 0x47 && int(pmt[1]&0x1f)<<8|int(pmt[2]) == pmtPid && pmt[1]&0x40 != 0, "pmt-ts-header")
	ps := pmt[5:]
	symapi.Assert(ps[0] == 2, "pmt-table-id")
	psl := int(ps[1]&0x0f)<<8 | int(ps[2])
	symapi.Assert(psl == 23, "pmt-two-streams")
	symapi.Assert(int(ps[8]&0x1f)<<8|int(ps[9]) == tsVideoPid, "pcr-pid-is-video")
	symapi.Assert(ps[12] == 0x1b && int(ps[13]&0x1f)<<8|int(ps[14]) == tsVideoPid, "h264-on-video-pid")
	symapi.Assert(ps[17] == 0x0f && int(ps[18]&0x1f)<<8|int(ps[19]) == tsAudioPid, "aac-on-audio-pid")
	pcrc := uint32(ps[22])<<24 | uint32(ps[23])<<16 | uint32(ps[24])<<8 | uint32(ps[25])
	symapi.Assert(verifCrc32Mpeg(ps[:22]) == pcrc, "pmt-crc")
	symapi.Reach("end")
}

// VerifTSAnnexB: prepareAvcHeader puts a start code in front of every payload, an AUD
// before slice/IDR/SEI units and SPS/PPS before IDR units.
func VerifTSAnnexB() {
	b0 := symapi.Byte("b0")
	sps := symapi.Bytes("sps", symapi.IntRange("nsps", 0, 3))
	pps := symapi.Bytes("pps", symapi.IntRange("npps", 0, 2))
	f := &Frame{Payload: []byte{b0, 1, 2}}
	f.prepareAvcHeader(sps, pps)
	t := b0 & 0x1f
	h := f.Header
	var want []byte
	aud := []byte{0, 0, 0, 1, 9, 0xf0}
	if t == 1 || t == 5 || t == 6 {
		want = append(want, aud...)
	}
	if t == 5 {
		if len(sps) > 0 {
			want = append(want, 0, 0, 0, 1)
			want = append(want, sps...)
		}
		if len(pps) > 0 {
			want = append(want, 0, 0, 0, 1)
			want = append(want, pps...)
		}
	}
	if len(want) == 0 {
		want = append(want, 0, 0, 0, 1)
	} else {
		want = append(want, 0, 0, 1)
	}
	symapi.Assert(len(h) == len(want), "annexb-header-length")
	for i := 0; i < len(want) && i < len(h); i++ {
		symapi.Assert(h[i] == want[i], "annexb-header-bytes")
	}
	symapi.Reach("end")
}

// VerifTSAdts: ADTS header fields decode to the inputs; frame_length == payload+7.
func VerifTSAdts() {
	profile := symapi.Byte("profile")
	sri := symapi.Byte("sri")
	ch := symapi.Byte("ch")
	size := symapi.Int("size")
	symapi.Assume(profile < 4 && sri < 16 && ch < 8 && size >= 0 && size <= 8191-7)
	h := aac.NewADTSHeader(profile, sri, ch, size)
	symapi.Assert(h[0] == 0xff && h[1]&0xf0 == 0xf0, "adts-syncword")
	symapi.Assert(h[1]&0x06 == 0, "adts-layer-0")
	symapi.Assert(h[1]&0x01 == 1, "adts-no-crc")
	symapi.Assert(h[2]>>6 == profile, "adts-profile")
	symapi.Assert(h[2]>>2&0xf == sri, "adts-sampling-index")
	symapi.Assert((h[2]&1)<<2|h[3]>>6 == ch, "adts-channel-config")
	fl := int(h[3]&3)<<11 | int(h[4])<<3 | int(h[5]>>5)
	symapi.Assert(fl == size+7, "adts-frame-length")
	symapi.Assert(h[5]&0x1f == 0x1f && h[6]>>2 == 0x3f, "adts-buffer-fullness-vbr")
	symapi.Assert(h[6]&3 == 0, "adts-one-raw-block")
	symapi.Assert(h.FrameLength() == size+7 && h.PayloadSize() == size, "adts-accessors")
	symapi.Reach("end")
}

// VerifTSConv: the packetizers set key/pid/stream id and hand the payload through.
func VerifTSConv() {
	rec := &verifFrameRec{}
	meta := &codec.VideoMeta{Codec: "H264", Sps: []byte{0x67, 1}, Pps: []byte{0x68}}
	p := NewH264Packetizer(meta, rec)
	pay := symapi.Bytes("pay", 3)
	fr := &codec.Frame{MediaType: codec.MediaTypeVideo, Payload: pay, Pts: symapi.Int64("pts"), Dts: symapi.Int64("dts")}
	p.Packetize(fr)
	symapi.Assert(len(rec.frames) == 1, "one-ts-frame")
	tf := rec.frames[0]
	symapi.Assert(tf.Pid == tsVideoPid && tf.StreamID == tsVideoAvc, "video-pid-stream-id")
	symapi.Assert(tf.key == (pay[0]&0x1f == 5), "key-iff-idr")
	symapi.Assert(len(tf.Payload) == 3 && tf.Payload[0] == pay[0] && tf.Payload[1] == pay[1] && tf.Payload[2] == pay[2], "payload-unchanged")
	symapi.Assert(tf.Pts == fr.Pts*90000/1000000000 && tf.Dts == fr.Dts*90000/1000000000, "90khz-conversion")
	symapi.Reach("end")
}

// VerifSetKey lets harnesses of other packages build key frames (the field is unexported).
func VerifSetKey(f *Frame, key bool) { f.key = key }

// VerifTSBigPes: frames around the 65535-byte PES limit (concrete content, every length in
// a window around the boundary): PES_packet_length is the exact size while it fits in 16
// bits and 0 (unbounded, video only) beyond; the packets still carry the frame.
func VerifTSBigPes() {
	W := symapi.Param("W", 12)
	hasDts := symapi.Bool("dts")
	hl := 5
	if hasDts {
		hl = 10
	}
	// es length such that es + hl + 3 ranges over 65535-W .. 65535+W
	n := 65535 - hl - 3 - W + symapi.IntRange("delta", 0, 2*W)
	pay := make([]byte, n)
	for i := range pay {
		pay[i] = byte(i*7 + 1)
	}
	f := &Frame{Pid: tsVideoPid, StreamID: tsVideoAvc, Pts: 900000, Dts: 900000, Payload: pay}
	if hasDts {
		f.Dts = 897000
	}
	f.key = symapi.Bool("key")
	rec := &verifRec{}
	w := &Writer{w: rec}
	symapi.Assert(w.WriteMpegtsFrame(f) == nil, "no-error")
	out := rec.buf
	symapi.Assert(len(out)%188 == 0, "whole-188-byte-packets")
	// first packet: locate the PES header
	p := out[:188]
	start := 4
	if p[3]>>4&3 == 3 {
		start = 5 + int(p[4])
	}
	symapi.Assert(p[start] == 0 && p[start+1] == 0 && p[start+2] == 1, "pes-start-code")
	pesLen := int(p[start+4])<<8 | int(p[start+5])
	full := n + hl + 3
	if full <= 0xffff {
		symapi.Assert(pesLen == full, "pes-length-exact-while-it-fits")
	} else {
		symapi.Assert(pesLen == 0, "pes-length-zero-when-over-65535")
	}
	// total payload bytes carried
	total := 0
	for i := 0; i < len(out)/188; i++ {
		q := out[i*188 : (i+1)*188]
		s := 4
		if q[3]>>4&3 == 3 {
			s = 5 + int(q[4])
		}
		total += 188 - s
	}
	symapi.Assert(total == n+9+hl, "all-bytes-carried")
	symapi.Reach("end")
}

// VerifTSKeyFrameParamSets: every IDR frame written for HLS is preceded by AUD, SPS and
// PPS, whatever NAL units came before it (in-band parameter sets included).
func VerifTSKeyFrameParamSets() {
	K := symapi.Param("KSEQ", 3)
	rec := &verifFrameRec{}
	sps, pps := []byte{0x67, 1, 2}, []byte{0x68, 3}
	meta := &codec.VideoMeta{Codec: "H264", Sps: sps, Pps: pps}
	p := NewH264Packetizer(meta, rec)
	types := []byte{7, 8, 5, 1, 6, 9}
	for k := 0; k < K; k++ {
		t := types[symapi.Choose("t"+string(rune('0'+k)), len(types))]
		fr := &codec.Frame{MediaType: codec.MediaTypeVideo, Payload: []byte{0x60 | t, 0xaa}, Pts: int64(k) * 40000000, Dts: int64(k) * 40000000}
		before := len(rec.frames)
		symapi.Assert(p.Packetize(fr) == nil, "no-error")
		if len(rec.frames) == before {
			continue // the unit was not forwarded as a sample of its own
		}
		tf := rec.frames[len(rec.frames)-1]
		h := tf.Header
		if t == 5 {
			want := []byte{0, 0, 0, 1, 9, 0xf0, 0, 0, 0, 1}
			want = append(want, sps...)
			want = append(want, 0, 0, 0, 1)
			want = append(want, pps...)
			want = append(want, 0, 0, 1)
			symapi.Assert(len(h) == len(want), "key-frame-preceded-by-aud-sps-pps")
			for i := 0; i < len(want) && i < len(h); i++ {
				symapi.Assert(h[i] == want[i], "key-frame-preceded-by-aud-sps-pps")
			}
			symapi.Assert(tf.key, "idr-is-key")
		} else {
			symapi.Assert(len(h) >= 3 && h[len(h)-1] == 1 && h[len(h)-2] == 0 && h[len(h)-3] == 0, "every-unit-has-a-start-code")
		}
	}
	symapi.Reach("end")
}

// VerifTSAacFrames: every audio frame the AAC packetizer hands on carries the ADTS header
// of its OWN payload, and keeps it when later frames are packetized (the HLS segment
// generator holds on to the first frame of a ~100 ms batch while more frames arrive).
func VerifTSAacFrames() {
	rec := &verifFrameRec{}
	meta := &codec.AudioMeta{Codec: "AAC", SampleRate: 44100, Channels: 2, Sps: []byte{0x12, 0x10}}
	p := NewAacPacketizer(meta, rec)
	n1 := symapi.IntRange("n1", 1, 3)
	n2 := symapi.IntRange("n2", 1, 3)
	f1 := &codec.Frame{MediaType: codec.MediaTypeAudio, Payload: symapi.Bytes("a", n1), Pts: 1000000000, Dts: 1000000000}
	f2 := &codec.Frame{MediaType: codec.MediaTypeAudio, Payload: symapi.Bytes("b", n2), Pts: 1023219954, Dts: 1023219954}
	symapi.Assert(p.Packetize(f1) == nil && p.Packetize(f2) == nil, "packetize-ok")
	symapi.Assert(len(rec.frames) == 2, "two-ts-frames")
	for i, n := range []int{n1, n2} {
		tf := rec.frames[i]
		symapi.Assert(tf.Pid == tsAudioPid && tf.StreamID == tsAudioAac, "audio-pid-stream-id")
		h := tf.Header
		symapi.Assert(len(h) == 7 && h[0] == 0xff && h[1]&0xf0 == 0xf0, "adts-header-present")
		fl := int(h[3]&3)<<11 | int(h[4])<<3 | int(h[5]>>5)
		symapi.Assert(fl == n+7, "each-frame-keeps-the-adts-length-of-its-own-payload")
		symapi.Assert(len(tf.Payload) == n, "payload-handed-through")
	}
	symapi.Assert(rec.frames[0].Pts == 90000 && rec.frames[1].Pts == 1023219954*9/100000, "90khz-conversion")
	symapi.Reach("end")
}

// VerifTSMuxerLateParamSets (C10 / C09): the SDP may carry no sprop-parameter-sets; SPS and PPS
// are then learnt in-band by the depacketizer AFTER the TS muxer was created, into the stream's
// shared metadata. A key frame muxed after that is still preceded by AUD, SPS and PPS.
func VerifTSMuxerLateParamSets() {
	symapi.Deterministic(true)
	rec := &verifFrameRec{}
	vm := &codec.VideoMeta{Codec: "H264"}
	am := &codec.AudioMeta{Codec: "AAC", SampleRate: 44100, Channels: 2, Sps: []byte{0x12, 0x10}}
	if symapi.Bool("parameterSetsInSdp") {
		vm.Sps, vm.Pps = []byte{0x67, 9, 9}, []byte{0x68, 9}
	}
	m, err := NewMuxer(vm, am, rec, xlog.L())
	symapi.Assert(err == nil && m != nil, "muxer-created")
	// in-band parameter sets arrive (the depacketizer stores them in the shared metadata)
	sps, pps := []byte{0x67, 1, 2}, []byte{0x68, 3}
	vm.Sps, vm.Pps = sps, pps
	m.WriteFrame(&codec.Frame{MediaType: codec.MediaTypeVideo, Payload: []byte{0x65, 0xaa}, Pts: 40000000, Dts: 40000000})
	symapi.Settle()
	symapi.Assert(len(rec.frames) == 1, "key-frame-muxed")
	h := rec.frames[0].Header
	want := []byte{0, 0, 0, 1, 9, 0xf0, 0, 0, 0, 1}
	want = append(want, sps...)
	want = append(want, 0, 0, 0, 1)
	want = append(want, pps...)
	want = append(want, 0, 0, 1)
	symapi.Assert(len(h) == len(want), "key-frame-preceded-by-aud-and-the-current-sps-pps")
	for i := 0; i < len(want) && i < len(h); i++ {
		symapi.Assert(h[i] == want[i], "key-frame-preceded-by-aud-and-the-current-sps-pps")
	}
	m.Close()
	symapi.Settle()
	symapi.Reach("end")
}

type verifCountSink struct{ n int }

func (s *verifCountSink) Write(p []byte) (int, error) { s.n += len(p); return len(p), nil }

// VerifTSPooledBufferOwnership (C07 / C09): after a frame of any size class - up to the
// multi-megabyte access unit a hostile publisher's fragment chain reassembles to - the
// writer's pooled scratch buffers are each owned by one user: two users taking a buffer from
// the pool never get the same one (which would splice one stream's bytes into another's
// segments).
func VerifTSPooledBufferOwnership() {
	size := []int{1000, 70000, 4<<20 + 1}[symapi.Choose("frameSize", 3)]
	sink := &verifCountSink{}
	w, err := NewWriter(sink)
	symapi.Assert(err == nil, "writer-created")
	payload := make([]byte, size)
	payload[0], payload[size-1] = 0x65, 0x80
	f := &Frame{Pid: tsVideoPid, StreamID: tsVideoAvc, Dts: 90000, Pts: 90000, Payload: payload, key: true}
	symapi.Assert(w.WriteMpegtsFrame(f) == nil, "huge-frame-written")
	symapi.Assert(sink.n%188 == 0 && sink.n >= size, "whole-ts-packets-carrying-the-frame")
	b1 := buffers.Get().(*bytes.Buffer)
	b2 := buffers.Get().(*bytes.Buffer)
	symapi.Assert(b1 != b2, "pooled-buffer-owned-by-one-user-at-a-time")
	symapi.Reach("end")
}
