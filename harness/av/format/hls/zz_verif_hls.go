package hls

import (
	"bytes"
	"errors"
	"io"
	"strconv"
	"strings"

	"github.com/cnotch/ipchub/av/codec/aac"
	"github.com/cnotch/ipchub/av/format/mpegts"
	"github.com/cnotch/ipchub/zzverif/symapi"
)

// recording segment file
type verifFile struct {
	opened, closed, deleted int
	frames                  []*mpegts.Frame
	payloads                [][]byte
	failWrites              int // the next failWrites writes fail (disk full, closed file)
}

func (f *verifFile) open(path string) error { f.opened++; return nil }
func (f *verifFile) close() error           { f.closed++; return nil }
func (f *verifFile) writeFrame(fr *mpegts.Frame) error {
	if f.failWrites > 0 {
		f.failWrites--
		return errors.New("write failed")
	}
	f.frames = append(f.frames, fr)
	f.payloads = append(f.payloads, append([]byte(nil), fr.Payload...))
	return nil
}
func (f *verifFile) get() (io.Reader, int, error) { return bytes.NewReader(nil), 0, nil }
func (f *verifFile) delete() error                { f.deleted++; return nil }

// VerifPlaylistWindow: from any playlist of k consecutive segments, adding the next keeps the
// last three, still consecutive, and deletes every dropped segment exactly once.
func VerifPlaylistWindow() {
	k := symapi.IntRange("k", 0, symapi.Param("K", 4))
	base := symapi.Int("base")
	symapi.Assume(base >= 1 && base < 1<<40)
	pl := NewPlaylist()
	var files []*verifFile
	for i := 0; i < k; i++ {
		f := &verifFile{}
		files = append(files, f)
		pl.segments = append(pl.segments, &segment{sequenceNo: base + i, file: f, uri: "u"})
	}
	nf := &verifFile{}
	files = append(files, nf)
	pl.addSegment(&segment{sequenceNo: base + k, file: nf, uri: "u"})
	n := k + 1
	keep := n
	if keep > 3 {
		keep = 3
	}
	symapi.Assert(len(pl.segments) == keep, "at-most-three-segments-kept")
	for i := 0; i < keep && i < len(pl.segments); i++ {
		symapi.Assert(pl.segments[i].sequenceNo == base+n-keep+i, "kept-segments-are-the-most-recent-consecutive")
	}
	for i, f := range files {
		if i < n-keep {
			symapi.Assert(f.deleted == 1, "dropped-segment-deleted-exactly-once")
		} else {
			symapi.Assert(f.deleted == 0, "listed-segment-not-deleted")
		}
	}
	symapi.Reach("end")
}

// VerifM3u8: the served playlist text against the listed segments.
func VerifM3u8() {
	k := symapi.IntRange("k", 0, 3)
	base := []int{1, 7, 4093}[symapi.Choose("base", 3)]
	durs := []float64{0.5, 4.96, 5.0, 9.999}
	pl := NewPlaylist()
	var want []*segment
	maxd := 0.0
	for i := 0; i < k; i++ {
		d := durs[symapi.Choose("d"+string(rune('0'+i)), len(durs))]
		if d > maxd {
			maxd = d
		}
		sg := &segment{sequenceNo: base + i, duration: d, file: &verifFile{}, uri: "/streams/live/a/" + strconv.Itoa(base+i) + ".ts"}
		want = append(want, sg)
		pl.segments = append(pl.segments, sg)
	}
	token := []string{"", "tok123"}[symapi.Choose("token", 2)]
	b, err := pl.M3u8(token)
	if k < 3 {
		symapi.Assert(err != nil, "fewer-than-three-segments-not-served")
		symapi.Reach("short")
		return
	}
	symapi.Assert(err == nil, "playlist-served")
	lines := strings.Split(string(b), "\n")
	symapi.Assert(len(lines) > 5 && lines[0] == "#EXTM3U", "m3u8-header")
	target, mseq := -1, -1
	var uris []string
	var infs []string
	for i, l := range lines {
		if strings.HasPrefix(l, "#EXT-X-TARGETDURATION:") {
			target, _ = strconv.Atoi(l[len("#EXT-X-TARGETDURATION:"):])
		}
		if strings.HasPrefix(l, "#EXT-X-MEDIA-SEQUENCE:") {
			mseq, _ = strconv.Atoi(l[len("#EXT-X-MEDIA-SEQUENCE:"):])
		}
		if strings.HasPrefix(l, "#EXTINF:") && i+1 < len(lines) {
			infs = append(infs, l)
			uris = append(uris, lines[i+1])
		}
	}
	symapi.Assert(mseq == base, "media-sequence-is-first-listed-number")
	symapi.Assert(float64(target) >= maxd && target == int(maxd+1), "target-duration-not-below-any-listed-duration")
	symapi.Assert(len(uris) == 3, "one-entry-per-segment")
	for i := 0; i < 3 && i < len(uris); i++ {
		u := want[i].uri
		if token != "" {
			u += "?token=" + token
		}
		symapi.Assert(uris[i] == u, "uri-in-order-with-token")
		_, _, e := pl.Segment(want[i].sequenceNo)
		symapi.Assert(e == nil, "listed-uri-resolves-to-a-segment")
	}
	_, _, e := pl.Segment(base + 3)
	symapi.Assert(e != nil, "unlisted-number-does-not-resolve")
	symapi.Reach("end")
}

// VerifSegmentCut: one frame into the real generator from a symbolic state: a cut happens
// only on a video key frame once the segment is long enough (or on audio at twice the
// length); every frame is written to exactly one segment; numbers stay consecutive.
func VerifSegmentCut() {
	pl := NewPlaylist()
	sg := &SegmentGenerator{playlist: pl, path: "/live/a", hlsFragment: 5, memory: true, sequenceNo: 0, audioRate: 44100, aacJitter: newHlsAacJitter()}
	// current segment: opened earlier, with a recording file
	curFile := &verifFile{}
	// CONC=1: the three time stamps are drawn from concrete classes around the thresholds
	// (100 ms, hlsFragment, 2 x hlsFragment), so that the float64 duration arithmetic is
	// evaluated exactly and a counterexample replays natively; CONC=0: symbolic time stamps,
	// durations as uninterpreted float terms (relational reasoning only).
	conc := symapi.Param("CONC", 0) == 1
	var startPts, concLast, concPts int64
	if conc {
		startPts = []int64{0, 270000}[symapi.Choose("startClass", 2)]
		durMs := []int64{0, 50, 99, 100, 101, 4999, 5000, 5001, 9999, 10000, 10001}[symapi.Choose("durClass", 11)]
		concLast = startPts + durMs*90
		concPts = concLast + []int64{0, 3600}[symapi.Choose("stepClass", 2)]
	} else {
		startPts = symapi.Int64("startPts")
	}
	var seqNo int
	if conc {
		seqNo = []int{1, 7, 65535}[symapi.Choose("seqClass", 3)]
	} else {
		seqNo = symapi.Int("seqNo")
	}
	symapi.Assume(seqNo >= 1 && seqNo < 1<<30 && startPts >= 0 && startPts < 1<<40)
	sg.sequenceNo = seqNo
	sg.current = &segment{sequenceNo: seqNo, segmentStartPts: startPts, file: curFile, uri: "cur"}
	var lastPts int64
	if conc {
		lastPts = concLast
	} else {
		lastPts = symapi.Int64("lastPts")
		symapi.Assume(lastPts >= startPts && lastPts < 1<<41)
	}
	sg.current.updateDuration(lastPts)
	durBefore := sg.current.duration
	// the incoming frame
	video := symapi.Bool("video")
	key := symapi.Bool("key")
	var pts int64
	if conc {
		pts = concPts
	} else {
		pts = symapi.Int64("pts")
		symapi.Assume(pts >= lastPts && pts < 1<<42)
	}
	fr := &mpegts.Frame{Pid: 256, StreamID: 0xe0, Pts: pts, Dts: pts, Payload: symapi.Bytes("pay", 2)}
	if !video {
		fr.Pid, fr.StreamID = 257, 0xc0
		fr.Header = []byte{0xff, 0xf1}
	} else {
		mpegts.VerifSetKey(fr, key)
	}
	// make newSegment use recording files
	verifNewFiles = nil
	err := sg.WriteMpegtsFrame(fr)
	symapi.Assert(err == nil, "no-error")
	cut := sg.current != nil && sg.current.file != segmentFile(curFile)
	longEnough := durBefore >= float64(sg.hlsFragment)
	if video {
		symapi.Assert(cut == (key && longEnough), "video-cut-only-on-key-frame-when-long-enough")
		// the frame is written exactly once, to the segment that is current afterwards
		total := 0
		for _, f := range append([]*verifFile{curFile}, verifNewFiles...) {
			for _, w := range f.frames {
				if w == fr {
					total++
				}
			}
		}
		symapi.Assert(total == 1, "every-video-frame-in-exactly-one-segment")
		if cut {
			nf := sg.current.file.(*verifFile)
			symapi.Assert(len(nf.frames) >= 1 && nf.frames[len(nf.frames)-1] == fr, "new-segment-starts-with-the-key-frame")
			symapi.Assert(curFile.closed == 1, "old-segment-closed")
			if durBefore*1000 < hlsSegmentMinDurationMs {
				symapi.Assert(curFile.deleted == 1 && sg.current.sequenceNo == seqNo && len(pl.segments) == 0, "too-short-segment-dropped-and-number-reused")
			} else {
				symapi.Assert(len(pl.segments) == 1 && pl.segments[0].sequenceNo == seqNo && sg.current.sequenceNo == seqNo+1, "numbers-stay-consecutive")
			}
		}
	}
	symapi.Reach("end")
}

var verifNewFiles []*verifFile

func VerifPlaylistTwin() {
	pl := NewPlaylist()
	for i := 0; i < 4; i++ {
		pl.addSegment(&segment{sequenceNo: 1 + i, file: &verifFile{}, uri: "u"})
	}
	symapi.Assert(len(pl.segments) == 4, "twin-window-keeps-four")
}

// newSegment is replaced by this function in the executor so that segments opened by the
// generator use recording files.
func verifNewSegmentStub(memory bool) *segment {
	f := &verifFile{}
	verifNewFiles = append(verifNewFiles, f)
	return &segment{file: f}
}

// VerifSegmentStableWhileRead: the bytes served for a segment are the transport stream
// produced for it, even if the playlist rolls over (the segment is dropped and a new one is
// opened and written) while the client is still reading.
func VerifSegmentStableWhileRead() {
	pl := NewPlaylist()
	// memory mode (pooled buffers) or disk mode (files of the modelled file system: a removed
	// file stays readable through a handle opened before the removal, as on POSIX)
	disk := symapi.Bool("disk")
	mk := func(seq int, fill byte) *segment {
		s := newSegment(!disk)
		s.sequenceNo = seq
		s.duration = 5
		symapi.Assert(s.file.open(symapi.TempPath("seg"+strconv.Itoa(seq)+".ts")) == nil, "open-ok")
		fr := &mpegts.Frame{Pid: 256, StreamID: 0xe0, Pts: 1, Dts: 1, Payload: []byte{fill, fill, fill}}
		symapi.Assert(s.file.writeFrame(fr) == nil, "write-ok")
		s.file.close()
		return s
	}
	for i := 1; i <= 3; i++ {
		pl.addSegment(mk(i, byte(i)))
	}
	r, size, err := pl.Segment(1)
	symapi.Assert(err == nil && size > 0, "segment-served")
	want := make([]byte, size)
	{
		r0, _, _ := pl.Segment(1)
		io.ReadFull(r0, want)
	}
	// roll-over while the first reader has not been consumed yet
	k := symapi.IntRange("rollovers", 1, 2)
	for i := 0; i < k; i++ {
		pl.addSegment(mk(4+i, byte(0xA0+i)))
	}
	got := make([]byte, size)
	n, _ := io.ReadFull(r, got)
	symapi.Assert(n == size, "segment-length-unchanged")
	for i := 0; i < size; i++ {
		symapi.Assert(got[i] == want[i], "segment-bytes-unchanged-by-rollover")
	}
	symapi.Reach("end")
}

// VerifM3u8VsRollover: a playlist fetched while the window rolls over is still internally
// consistent: three consecutive entries starting at the media-sequence number.
func VerifM3u8VsRollover() {
	base := []int{3, 40}[symapi.Choose("base", 2)]
	pl := NewPlaylist()
	for i := 0; i < 3; i++ {
		pl.segments = append(pl.segments, &segment{sequenceNo: base + i, duration: 5, file: &verifFile{}, uri: "/s/" + strconv.Itoa(base+i) + ".ts"})
	}
	rolls := symapi.IntRange("rolls", 1, 2)
	symapi.Go(func() {
		for i := 0; i < rolls; i++ {
			pl.addSegment(&segment{sequenceNo: base + 3 + i, duration: 5, file: &verifFile{}, uri: "/s/" + strconv.Itoa(base+3+i) + ".ts"})
		}
	})
	b, err := pl.M3u8("")
	text := string(b) // the buffer goes back to the pool: take the bytes now, as the HTTP handler does
	symapi.Quiesce()
	symapi.Assert(err == nil, "playlist-served")
	lines := strings.Split(text, "\n")
	mseq := -1
	var nums []int
	for _, l := range lines {
		if strings.HasPrefix(l, "#EXT-X-MEDIA-SEQUENCE:") {
			mseq, _ = strconv.Atoi(l[len("#EXT-X-MEDIA-SEQUENCE:"):])
		}
		if strings.HasPrefix(l, "/s/") {
			n, _ := strconv.Atoi(l[3 : len(l)-3])
			nums = append(nums, n)
		}
	}
	symapi.Assert(len(nums) == 3, "exactly-three-entries")
	symapi.Assert(mseq >= base && mseq <= base+rolls, "media-sequence-is-a-window-start")
	for i, n := range nums {
		symapi.Assert(n == mseq+i, "entries-consecutive-from-media-sequence")
	}
	symapi.Reach("end")
}

// VerifM3u8Stable (C10): the playlist handed to one caller is that caller's own: it keeps its
// content (token included) while it is being sent, whatever other callers fetch meanwhile.
func VerifM3u8Stable() {
	pl := NewPlaylist()
	for i := 0; i < 3; i++ {
		pl.segments = append(pl.segments, &segment{sequenceNo: 7 + i, duration: 5, file: &verifFile{}, uri: "/s/" + strconv.Itoa(7+i) + ".ts"})
	}
	t1 := []string{"", "alice"}[symapi.Choose("firstToken", 2)]
	b1, err := pl.M3u8(t1)
	symapi.Assert(err == nil && len(b1) > 0, "playlist-served")
	snapshot := string(b1)
	// other players fetch the playlist (with their own tokens, after a rollover) while the
	// first response is still being written out
	n := symapi.IntRange("otherFetches", 1, 2)
	for i := 0; i < n; i++ {
		if symapi.Bool("rollover") {
			pl.addSegment(&segment{sequenceNo: 10 + i, duration: 9, file: &verifFile{}, uri: "/s/" + strconv.Itoa(10+i) + ".ts"})
		}
		pl.M3u8("bob-token-that-is-longer")
	}
	symapi.Assert(string(b1) == snapshot, "served-playlist-unchanged-by-later-fetches")
	symapi.Reach("end")
}

// VerifAudioCacheInvariant (C09 / C10): the audio batch of the segment generator: "no cached
// frame => empty batch buffer" holds after every flush, also one whose segment write fails;
// so the next audio PES holds exactly the frames batched after the flush (ADTS lengths chain).
func VerifAudioCacheInvariant() {
	pl := NewPlaylist()
	cur := &verifFile{}
	sg := &SegmentGenerator{playlist: pl, path: "/live/a", hlsFragment: 5, memory: true, sequenceNo: 3, audioRate: 44100, aacJitter: newHlsAacJitter()}
	sg.current = &segment{sequenceNo: 3, file: cur, uri: "cur"}
	mk := func(pts int64, b byte, n int) *mpegts.Frame {
		p := make([]byte, n)
		for i := range p {
			p[i] = b
		}
		h := aac.NewADTSHeader(1, 4, 2, n)
		return &mpegts.Frame{Pid: 257, StreamID: 0xc0, Pts: pts, Dts: pts, Header: h[:], Payload: p}
	}
	// an arbitrary batch: 1..3 frames cached
	k := symapi.IntRange("batched", 1, 3)
	for i := 0; i < k; i++ {
		symapi.Assert(sg.WriteMpegtsFrame(mk(int64(i)*2089, byte(0xA0+i), 3+i)) == nil, "batching-ok")
	}
	symapi.Assert(sg.afCache != nil && len(cur.frames) == 0, "batch-pending")
	if symapi.Bool("segmentWriteFails") {
		cur.failWrites = 1
	}
	sg.flushAudioCache()
	symapi.Assert(sg.afCache == nil && sg.afCacheBuff.Len() == 0, "no-cached-frame-means-empty-batch-buffer")
	// the next batch holds exactly its own frames
	f1 := mk(20000, 0xB1, 4)
	f2 := mk(22089, 0xB2, 5)
	sg.WriteMpegtsFrame(f1)
	sg.WriteMpegtsFrame(f2)
	before := len(cur.frames)
	sg.flushAudioCache()
	symapi.Assert(len(cur.frames) == before+1, "one-audio-pes-per-batch")
	pes := cur.payloads[len(cur.payloads)-1]
	symapi.Assert(len(pes) == 4+7+5, "batch-payload-is-frame1 + adts2 + frame2")
	symapi.Assert(pes[0] == 0xB1 && pes[3] == 0xB1 && pes[4] == 0xff && pes[11] == 0xB2 && pes[15] == 0xB2, "adts-chain-of-the-new-batch-intact")
	symapi.Reach("end")
}

// VerifNewPlaylist lets harnesses of other packages obtain a playlist with three listed
// segments (numbers base..base+2) without running a segment generator.
func VerifNewPlaylist(base int) *Playlist {
	pl := NewPlaylist()
	for i := 0; i < 3; i++ {
		pl.segments = append(pl.segments, &segment{sequenceNo: base + i, duration: 5, file: &verifFile{}, uri: "/streams/live/h/" + strconv.Itoa(base+i) + ".ts"})
	}
	return pl
}

// VerifRollover adds the next segment to a playlist built by VerifNewPlaylist.
func VerifRollover(pl *Playlist, seq int) {
	pl.addSegment(&segment{sequenceNo: seq, duration: 5, file: &verifFile{}, uri: "/streams/live/h/" + strconv.Itoa(seq) + ".ts"})
}

// VerifAacJitterStep (C09 / C10, one inductive step over the jitter state): from any state
// (base, sample count) and any supplied audio PTS, the PTS given to the audio PES is within
// the 100 ms sync window of the supplied one - in both directions - and equal to it after a
// resynchronisation.
func VerifAacJitterStep() {
	ha := newHlsAacJitter()
	ha.basePts = symapi.Int64("basePts")
	ha.nbSamples = symapi.Int64("nbSamples")
	pts := symapi.Int64("pts")
	symapi.Assume(ha.basePts >= 0 && ha.basePts < 1<<33 && ha.nbSamples >= 0 && ha.nbSamples < 1<<20 && pts >= 0 && pts < 1<<33)
	rate := []int{44100, 48000, 22050}[symapi.Choose("sampleRate", 3)]
	got := ha.onBufferStart(pts, rate)
	d := got - pts
	symapi.Assert(d <= 100*90 && d >= -100*90, "audio-pes-pts-within-the-sync-window-of-the-supplied-pts")
	symapi.Reach("end")
}
