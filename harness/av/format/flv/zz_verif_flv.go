package flv

import (
	"time"

	"github.com/cnotch/ipchub/av/codec"
	"github.com/cnotch/ipchub/zzverif/symapi"
	"github.com/cnotch/queue"
)

type verifRec struct{ buf []byte }

func (r *verifRec) Write(p []byte) (int, error) {
	r.buf = append(r.buf, p...)
	return len(p), nil
}

type verifTagRec struct {
	tags  []*Tag
	onTag func(*Tag)
}

func (r *verifTagRec) WriteFlvTag(t *Tag) error {
	r.tags = append(r.tags, t)
	if r.onTag != nil {
		r.onTag(t)
	}
	return nil
}

func verifEq(a, b []byte) bool {
	if len(a) != len(b) {
		return false
	}
	for i := range a {
		if a[i] != b[i] {
			return false
		}
	}
	return true
}

// VerifFlvStream: header + K tags through the real Writer, parsed by an independent reader.
func VerifFlvStream() {
	N := symapi.Param("N", 4)
	K := symapi.Param("K", 2)
	flags := symapi.Byte("flags")
	rec := &verifRec{}
	w, err := NewWriter(rec, flags)
	if flags&5 == 0 {
		symapi.Assert(err != nil && w == nil, "no-streams-rejected")
		symapi.Reach("rejected")
		return
	}
	symapi.Assert(err == nil, "writer-created")
	var tags []*Tag
	for i := 0; i < K; i++ {
		n := symapi.IntRange("n"+string(rune('0'+i)), 0, N)
		t := &Tag{TagType: symapi.Byte("type" + string(rune('0'+i))), Filter: symapi.Byte("filter" + string(rune('0'+i))),
			Timestamp: symapi.Uint32("ts" + string(rune('0'+i))), Data: symapi.Bytes("d"+string(rune('0'+i)), n)}
		tags = append(tags, t)
		symapi.Assert(w.WriteFlvTag(t) == nil, "tag-written")
	}
	out := rec.buf
	symapi.Assert(len(out) >= 13, "header-present")
	symapi.Assert(out[0] == 'F' && out[1] == 'L' && out[2] == 'V' && out[3] == 1, "flv-signature-version")
	symapi.Assert(out[4] == flags&5, "type-flags")
	symapi.Assert(out[5] == 0 && out[6] == 0 && out[7] == 0 && out[8] == 9, "data-offset-9")
	symapi.Assert(out[9] == 0 && out[10] == 0 && out[11] == 0 && out[12] == 0, "previous-tag-size0")
	pos := 13
	for i, t := range tags {
		symapi.Assert(len(out) >= pos+11+len(t.Data)+4, "tag-complete")
		h := out[pos : pos+11]
		symapi.Assert(h[0] == (t.Filter&1)<<5|t.TagType&0x1f, "tag-type-and-filter")
		size := int(h[1])<<16 | int(h[2])<<8 | int(h[3])
		symapi.Assert(size == len(t.Data), "tag-data-size")
		ts := uint32(h[4])<<16 | uint32(h[5])<<8 | uint32(h[6]) | uint32(h[7])<<24
		// rebased on the first tag of this client
		d := int32(t.Timestamp - tags[0].Timestamp)
		if i == 0 {
			symapi.Assert(ts == 0, "first-tag-timestamp-zero")
		} else if d >= 0 {
			symapi.Assert(ts == uint32(d), "timestamp-rebased-on-first-tag")
		} else {
			// a tag older than the first must not appear as a wrapped, huge timestamp
			symapi.Assert(ts < 1<<31, "older-tag-not-wrapped")
		}
		symapi.Assert(h[8] == 0 && h[9] == 0 && h[10] == 0, "stream-id-zero")
		symapi.Assert(verifEq(out[pos+11:pos+11+len(t.Data)], t.Data), "tag-data-identical")
		p := pos + 11 + len(t.Data)
		prev := uint32(out[p])<<24 | uint32(out[p+1])<<16 | uint32(out[p+2])<<8 | uint32(out[p+3])
		symapi.Assert(prev == uint32(11+len(t.Data)), "previous-tag-size")
		pos = p + 4
	}
	symapi.Assert(pos == len(out), "nothing-else-written")
	symapi.Reach("end")
}

// VerifFlvVideo: one H.264 / H.265 frame -> one video tag with the documented layout.
func VerifFlvVideo() {
	N := symapi.Param("N", 5)
	hevc := symapi.Bool("hevc")
	n := symapi.IntRange("n", 2, N)
	pay := symapi.Bytes("pay", n)
	fr := &codec.Frame{MediaType: codec.MediaTypeVideo, Payload: pay, Pts: symapi.Int64("pts"), Dts: symapi.Int64("dts")}
	rec := &verifTagRec{}
	var p Packetizer
	if hevc {
		p = NewH265Packetizer(&codec.VideoMeta{Codec: "H265"}, rec)
	} else {
		p = NewH264Packetizer(&codec.VideoMeta{Codec: "H264"}, rec)
	}
	symapi.Assert(p.Packetize(fr) == nil, "no-error")
	symapi.Assert(len(rec.tags) == 1, "one-tag")
	t := rec.tags[0]
	dts := fr.Dts / int64(time.Millisecond)
	pts := fr.Pts / int64(time.Millisecond)
	symapi.Assert(t.TagType == TagTypeVideo && t.StreamID == 0, "video-tag")
	symapi.Assert(t.Timestamp == uint32(dts), "timestamp-is-dts-ms")
	d := t.Data
	symapi.Assert(len(d) == 9+n, "video-data-length")
	key := pay[0]&0x1f == 5
	codecID := byte(7)
	if hevc {
		nt := pay[0] >> 1 & 0x3f
		key = nt >= 16 && nt <= 21
		codecID = 12
	}
	if key {
		symapi.Assert(d[0] == 1<<4|codecID, "key-frame-flag-iff-idr-irap")
	} else {
		symapi.Assert(d[0] == 2<<4|codecID, "key-frame-flag-iff-idr-irap")
	}
	symapi.Assert(d[1] == 1, "avc-packet-type-nalu")
	cts := uint32(d[2])<<16 | uint32(d[3])<<8 | uint32(d[4])
	symapi.Assert(cts == uint32(pts-dts)&0xffffff, "composition-offset-is-pts-minus-dts")
	ln := uint32(d[5])<<24 | uint32(d[6])<<16 | uint32(d[7])<<8 | uint32(d[8])
	symapi.Assert(ln == uint32(n), "nal-length-prefix")
	symapi.Assert(verifEq(d[9:], pay), "nal-bytes-identical")
	symapi.Reach("end")
}

// VerifFlvAudio: AAC frame and AAC sequence header tags.
func VerifFlvAudio() {
	N := symapi.Param("N", 4)
	n := symapi.IntRange("n", 1, N+2)
	if n == N+1 { // two longer frames: longer than an ADTS header (7 / 9 bytes), whatever they start with
		n = 8
	} else if n == N+2 {
		n = 12
	}
	pay := symapi.Bytes("pay", n)
	asc := symapi.Bytes("asc", 2)
	rate := []int{5512, 11025, 22050, 44100, 48000}[symapi.Choose("rate", 5)]
	meta := &codec.AudioMeta{Codec: "AAC", SampleRate: rate, SampleSize: []int{8, 16}[symapi.Choose("ss", 2)], Channels: symapi.IntRange("ch", 1, 2), Sps: asc}
	rec := &verifTagRec{}
	p := NewAacPacketizer(meta, rec)
	fr := &codec.Frame{MediaType: codec.MediaTypeAudio, Payload: pay, Pts: symapi.Int64("pts")}
	symapi.Assert(p.PacketizeSequenceHeader() == nil && p.Packetize(fr) == nil, "no-error")
	symapi.Assert(len(rec.tags) == 2, "two-tags")
	sh, t := rec.tags[0], rec.tags[1]
	wantRate := byte(3)
	switch rate {
	case 5512:
		wantRate = 0
	case 11025:
		wantRate = 1
	case 22050:
		wantRate = 2
	}
	b0 := byte(10<<4) | wantRate<<2
	if meta.SampleSize != 8 {
		b0 |= 2
	}
	if meta.Channels > 1 {
		b0 |= 1
	}
	symapi.Assert(sh.TagType == TagTypeAudio && t.TagType == TagTypeAudio, "audio-tags")
	symapi.Assert(len(sh.Data) == 4 && sh.Data[0] == b0 && sh.Data[1] == 0 && sh.Data[2] == asc[0] && sh.Data[3] == asc[1], "aac-sequence-header-carries-asc")
	symapi.Assert(sh.Timestamp == 0, "sequence-header-timestamp-zero")
	symapi.Assert(len(t.Data) == 2+n && t.Data[0] == b0 && t.Data[1] == 1, "aac-raw-header")
	symapi.Assert(verifEq(t.Data[2:], pay), "aac-frame-identical")
	symapi.Assert(t.Timestamp == uint32(fr.Pts/int64(time.Millisecond)), "audio-timestamp-ms")
	symapi.Reach("end")
}

// VerifFlvAvcc: AVCDecoderConfigurationRecord from arbitrary SPS/PPS.
func VerifFlvAvcc() {
	ns := symapi.IntRange("ns", 4, symapi.Param("NS", 6)) // precondition: the SPS decoded (>= 4 bytes) before any frame reaches the muxer
	np := symapi.IntRange("np", 0, 3)
	sps := symapi.Bytes("sps", ns)
	pps := symapi.Bytes("pps", np)
	rec := &verifTagRec{}
	p := NewH264Packetizer(&codec.VideoMeta{Codec: "H264", Sps: sps, Pps: pps}, rec)
	p.PacketizeSequenceHeader()
	if ns < 4 {
		// a parameter set too short to carry profile/level cannot yield a record; it must
		// not panic either
		symapi.Reach("short")
		return
	}
	symapi.Assert(len(rec.tags) == 1, "one-tag")
	t := rec.tags[0]
	d := t.Data
	symapi.Assert(t.TagType == TagTypeVideo && t.Timestamp == 0, "video-tag-ts0")
	symapi.Assert(len(d) == 5+11+ns+np, "avcc-length")
	symapi.Assert(d[0] == 1<<4|7 && d[1] == 0 && d[2] == 0 && d[3] == 0 && d[4] == 0, "avc-sequence-header")
	r := d[5:]
	symapi.Assert(r[0] == 1 && r[1] == sps[1] && r[2] == sps[2] && r[3] == sps[3], "avcc-version-profile-compat-level")
	symapi.Assert(r[4] == 0xff && r[5] == 0xe1, "avcc-length-size-4-one-sps")
	symapi.Assert(int(r[6])<<8|int(r[7]) == ns && verifEq(r[8:8+ns], sps), "avcc-sps")
	q := r[8+ns:]
	symapi.Assert(q[0] == 1 && int(q[1])<<8|int(q[2]) == np && verifEq(q[3:], pps), "avcc-pps")
	symapi.Reach("end")
}

func VerifFlvStreamTwin() {
	rec := &verifRec{}
	w, _ := NewWriter(rec, 5)
	t := &Tag{TagType: 9, Timestamp: symapi.Uint32("ts"), Data: symapi.Bytes("d", 2)}
	w.WriteFlvTag(t)
	out := rec.buf
	symapi.Assert(out[13+11+2+3] == 11, "twin-previous-tag-size-without-data")
}

// In VerifFlvMuxerOrder (*Muxer).muxMetadataTag is replaced by this (the AMF0 body needs
// reflection and float formatting): a metadata tag with an opaque body is written.
func verifMetadataStub(muxer *Muxer) error {
	return muxer.tagWriter.WriteFlvTag(&Tag{TagType: TagTypeAmf0Data, Data: []byte{2, 0, 10, 'o', 'n', 'M', 'e', 't', 'a', 'D', 'a', 't', 'a'}})
}

// VerifFlvMuxerOrder: whatever frames arrive first (audio before video, non-key before key),
// the muxer's output starts with the metadata tag, then the video decoder configuration,
// then (with AAC) the audio configuration, each exactly once, before any media tag; every
// frame then yields its media tag in arrival order.
func VerifFlvMuxerOrder() {
	symapi.Deterministic(true)
	K := symapi.Param("K", 3)
	rec := &verifTagRec{}
	hevc := symapi.Bool("hevc")
	withAudio := symapi.Bool("aac")
	vm := &codec.VideoMeta{Codec: "H264", Sps: []byte{0x67, 0x42, 0x00, 0x1f, 0xaa}, Pps: []byte{0x68, 0xce}}
	if hevc {
		vm = &codec.VideoMeta{Codec: "H265", Vps: []byte{0x40, 1, 0x0c, 1, 0xff}, Sps: []byte{0x42, 1, 1, 1, 0x60, 0, 0, 3, 0, 0x90, 0, 0, 3, 0, 0, 3, 0, 0x5d}, Pps: []byte{0x44, 1, 0xc1}}
	}
	am := &codec.AudioMeta{}
	if withAudio {
		am = &codec.AudioMeta{Codec: "AAC", SampleRate: 44100, Channels: 2, SampleSize: 16, Sps: []byte{0x12, 0x10}}
	}
	m := &Muxer{recvQueue: queue.NewSyncQueue(), videoMeta: vm, audioMeta: am, vp: emptyPacketizer{}, ap: emptyPacketizer{}, typeFlags: byte(TypeFlagsVideo), tagWriter: rec}
	if hevc {
		m.vp = NewH265Packetizer(vm, rec)
	} else {
		m.vp = NewH264Packetizer(vm, rec)
	}
	if withAudio {
		m.typeFlags |= TypeFlagsAudio
		m.ap = NewAacPacketizer(am, rec)
	}
	symapi.Go(m.process)
	want := 0
	for k := 0; k < K; k++ {
		var f *codec.Frame
		switch symapi.Choose("frame", 3) {
		case 0:
			f = &codec.Frame{MediaType: codec.MediaTypeAudio, Payload: []byte{0x21, 0x10, byte(k)}, Pts: int64(k) * 23000000, Dts: int64(k) * 23000000}
			if withAudio {
				want++
			}
		case 1: // non-key slice
			p := []byte{0x41, 0x9a, byte(k)}
			if hevc {
				p = []byte{1 << 1, 1, 0x9a, byte(k)}
			}
			f = &codec.Frame{MediaType: codec.MediaTypeVideo, Payload: p, Pts: int64(k) * 40000000, Dts: int64(k) * 40000000}
			want++
		case 2: // key frame
			p := []byte{0x65, 0x88, byte(k)}
			if hevc {
				p = []byte{19 << 1, 1, 0x88, byte(k)}
			}
			f = &codec.Frame{MediaType: codec.MediaTypeVideo, Payload: p, Pts: int64(k) * 40000000, Dts: int64(k) * 40000000}
			want++
		}
		m.WriteFrame(f)
	}
	symapi.Settle()
	tags := rec.tags
	heads := 2
	if withAudio {
		heads = 3
	}
	symapi.Assert(len(tags) == heads+want, "headers-once-then-one-tag-per-frame")
	symapi.Assert(tags[0].TagType == TagTypeAmf0Data, "metadata-first")
	symapi.Assert(tags[1].IsH2645SequenceHeader(), "video-decoder-configuration-second")
	if withAudio {
		symapi.Assert(tags[2].IsAACSequenceHeader(), "aac-configuration-third")
	}
	for _, t := range tags[heads:] {
		symapi.Assert(t.TagType != TagTypeAmf0Data && !t.IsH2645SequenceHeader() && !t.IsAACSequenceHeader(), "no-second-header-among-the-media-tags")
	}
	m.Close()
	symapi.Settle()
	symapi.Reach("end")
}

// VerifFlvBigTags: tags of every size class (one byte up to a NAL larger than 64 KiB) written
// to a client that joined mid-stream (first tag at a non-zero decode time): every tag's
// timestamp is rebased on the first, its size fields are exact and its data intact.
func VerifFlvBigTags() {
	rec := &verifRec{}
	w, err := NewWriter(rec, 5)
	symapi.Assert(err == nil, "writer-created")
	t0 := symapi.Uint32("firstTimestamp")
	symapi.Assume(t0 < 1<<30)
	first := &Tag{TagType: TagTypeVideo, Timestamp: t0, Data: []byte{0x17, 1, 0, 0, 0, 0, 0, 0, 1, 0x65}}
	symapi.Assert(w.WriteFlvTag(first) == nil, "tag-written")
	n := []int{1, 255, 65000, 65524, 65525, 65536, 71680, 1 << 17}[symapi.Choose("size", 8)]
	data := make([]byte, n)
	for i := range data {
		data[i] = byte(i%251) + 1
	}
	data[0] = 0x27
	big := &Tag{TagType: TagTypeVideo, Timestamp: t0 + 80, Data: data}
	symapi.Assert(w.WriteFlvTag(big) == nil, "tag-written")
	out := rec.buf
	pos := 13 + 11 + len(first.Data) + 4
	symapi.Assert(len(out) == pos+11+n+4, "stream-length")
	h := out[pos : pos+11]
	size := int(h[1])<<16 | int(h[2])<<8 | int(h[3])
	symapi.Assert(size == n, "tag-data-size")
	ts := uint32(h[4])<<16 | uint32(h[5])<<8 | uint32(h[6]) | uint32(h[7])<<24
	symapi.Assert(ts == 80, "timestamp-rebased-on-first-tag")
	symapi.Assert(out[pos+11] == 0x27 && out[pos+11+n-1] == data[n-1], "tag-data-first-and-last-byte")
	p := pos + 11 + n
	prev := uint32(out[p])<<24 | uint32(out[p+1])<<16 | uint32(out[p+2])<<8 | uint32(out[p+3])
	symapi.Assert(prev == uint32(11+n), "previous-tag-size")
	symapi.Reach("end")
}
