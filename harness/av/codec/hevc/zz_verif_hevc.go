package hevc

import "github.com/cnotch/ipchub/zzverif/symapi"

// VerifHevcTotal: arbitrary bytes into the H.265 SPS / VPS decoders: a result or an error,
// never an escaping panic or a non-terminating loop.
func VerifHevcTotal() {
	N := symapi.Param("N", 5)
	n := symapi.IntRange("n", 0, N)
	if symapi.Bool("vps") {
		data := append([]byte{0x40, 0x01}, symapi.Bytes("b", n)...)
		var vps H265RawVPS
		vps.Decode(data)
	} else {
		data := append([]byte{0x42, 0x01}, symapi.Bytes("b", n)...)
		var sps H265RawSPS
		sps.Decode(data)
	}
	symapi.Reach("end")
}

// VerifHevcDims: conformance-window cropping per H.265 7.4.3.2.1.
func VerifHevcDims() {
	var sps H265RawSPS
	cfi := symapi.IntRange("chroma_format_idc", 0, 3)
	sps.Chroma_format_idc = uint8(cfi)
	if cfi == 3 {
		sps.Separate_colour_plane_flag = uint8(symapi.IntRange("separate_colour_plane", 0, 1))
	}
	w, h := symapi.Uint16("w"), symapi.Uint16("h")
	symapi.Assume(w >= 8 && h >= 8 && w <= 8192 && h <= 8192)
	sps.Pic_width_in_luma_samples, sps.Pic_height_in_luma_samples = w, h
	cw := symapi.IntRange("conformance_window_flag", 0, 1)
	sps.Conformance_window_flag = uint8(cw)
	l, r, t, b := symapi.Uint8("l"), symapi.Uint8("r"), symapi.Uint8("t"), symapi.Uint8("b")
	sps.Conf_win_left_offset, sps.Conf_win_right_offset, sps.Conf_win_top_offset, sps.Conf_win_bottom_offset = uint16(l), uint16(r), uint16(t), uint16(b)
	subW, subH := 1, 1
	if sps.Separate_colour_plane_flag == 0 {
		switch cfi {
		case 1:
			subW, subH = 2, 2
		case 2:
			subW, subH = 2, 1
		}
	}
	wantW, wantH := int(w), int(h)
	if cw == 1 {
		wantW -= subW * (int(l) + int(r))
		wantH -= subH * (int(t) + int(b))
	}
	symapi.Assert(sps.Width() == wantW, "width-equals-standard")
	symapi.Assert(sps.Height() == wantH, "height-equals-standard")
	symapi.Reach("end")
}

// ---- an independent bit-exact writer for the SPS syntax (H.265 7.3.2.2) ----

type verifBitW struct {
	buf []byte
	n   int
}

func (w *verifBitW) bit(b byte) {
	if w.n%8 == 0 {
		w.buf = append(w.buf, 0)
	}
	w.buf[w.n/8] |= (b & 1) << uint(7-w.n%8)
	w.n++
}

func (w *verifBitW) u(nbits int, v uint32) {
	for i := nbits - 1; i >= 0; i-- {
		w.bit(byte(v>>uint(i)) & 1)
	}
}

// ue writes ue(v) for a concrete value.
func (w *verifBitW) ue(v uint32) {
	n := 0
	for (v+1)>>uint(n+1) != 0 {
		n++
	}
	w.u(n, 0)
	w.u(n+1, v+1)
}

// ueSmall writes ue(v) for a symbolic v in 0..2 (codes 1, 010, 011) and returns v.
func (w *verifBitW) ueSmall(name string) uint32 {
	if symapi.Bool(name + ".zero") {
		w.bit(1)
		return 0
	}
	b := symapi.Byte(name+".low") & 1
	w.bit(0)
	w.bit(1)
	w.bit(b)
	return 1 + uint32(b)
}

// VerifHevcSpsSyntax: an SPS written field by field per the standard - with 1..3 sub-layers,
// sub-layer ordering info present or not (distinct values per sub-layer, the first symbolic), a general profile from the
// classes that select each reserved-bits branch of profile_tier_level, and distinct values in
// the fields that follow - is decoded to exactly the written values and dimensions.
func VerifHevcSpsSyntax() {
	w := &verifBitW{}
	w.u(16, 0x4201) // nal_unit_header: SPS
	w.u(4, 0)       // sps_video_parameter_set_id
	maxSub := uint32(symapi.IntRange("max_sub_layers_minus1", 0, 2))
	w.u(3, maxSub)
	w.u(1, 1) // temporal_id_nesting
	// profile_tier_level(1, maxSub)
	profile := []uint32{1, 2, 4, 5, 9, 11}[symapi.Choose("general_profile_idc", 6)]
	w.u(2, 0)
	w.u(1, 0)
	w.u(5, profile)
	w.u(32, uint32(1)<<(31-profile)) // compatibility flag j = profile
	w.u(4, 0x9)                      // progressive, !interlaced, !non_packed, frame_only
	w.u(32, 0)                       // 43 reserved / constraint bits (all zero is legal in every branch)
	w.u(11, 0)
	w.u(1, 0)  // inbld / reserved
	w.u(8, 93) // general_level_idc
	for i := uint32(0); i < maxSub; i++ {
		w.u(2, 0) // sub_layer_profile_present_flag, sub_layer_level_present_flag
	}
	if maxSub > 0 {
		for i := maxSub; i < 8; i++ {
			w.u(2, 0)
		}
	}
	w.ue(0) // sps_seq_parameter_set_id
	w.ue(1) // chroma_format_idc 4:2:0
	dims := [][2]uint32{{1920, 1080}, {64, 64}, {4096, 2160}}[symapi.Choose("dims", 3)]
	w.ue(dims[0])
	w.ue(dims[1])
	w.u(1, 0) // conformance_window_flag
	w.ue(0)   // bit_depth_luma_minus8
	w.ue(0)   // bit_depth_chroma_minus8
	w.ue(4)   // log2_max_pic_order_cnt_lsb_minus4
	present := symapi.Bool("sub_layer_ordering_info_present")
	var pflag uint32
	if present {
		pflag = 1
	}
	w.u(1, pflag)
	first := maxSub
	if present {
		first = 0
	}
	var dpb, reorder, latency [3]uint32
	for i := first; i <= maxSub; i++ {
		if i == first {
			dpb[i] = w.ueSmall("dpb") // symbolic
		} else {
			dpb[i] = i + 1
			w.ue(dpb[i])
		}
		reorder[i], latency[i] = i, 2-i
		w.ue(reorder[i])
		w.ue(latency[i])
	}
	w.ue(0)   // log2_min_luma_coding_block_size_minus3
	w.ue(3)   // log2_diff_max_min_luma_coding_block_size
	w.ue(0)   // log2_min_luma_transform_block_size_minus2
	w.ue(3)   // log2_diff_max_min_luma_transform_block_size
	w.ue(2)   // max_transform_hierarchy_depth_inter
	w.ue(1)   // max_transform_hierarchy_depth_intra
	w.u(1, 0) // scaling_list_enabled
	w.u(1, 1) // amp
	w.u(1, 1) // sao
	w.u(1, 0) // pcm
	w.ue(0)   // num_short_term_ref_pic_sets
	w.u(1, 0) // long_term_ref_pics_present
	w.u(1, 1) // temporal_mvp
	w.u(1, 1) // strong_intra_smoothing
	w.u(1, 0) // vui_parameters_present
	w.u(1, 0) // sps_extension_present
	w.u(1, 1) // rbsp_stop_one_bit
	for w.n%8 != 0 {
		w.bit(0)
	}
	// emulation prevention (the writer of a real encoder): 00 00 0x -> 00 00 03 0x
	var nal []byte
	zeros := 0
	for i, b := range w.buf {
		if i >= 2 && zeros >= 2 && b <= 3 {
			nal = append(nal, 3)
			zeros = 0
		}
		nal = append(nal, b)
		if b == 0 {
			zeros++
		} else {
			zeros = 0
		}
	}
	var sps H265RawSPS
	err := sps.Decode(nal)
	symapi.Assert(err == nil, "valid-sps-accepted")
	symapi.Assert(sps.Width() == int(dims[0]) && sps.Height() == int(dims[1]), "dimensions-as-written")
	symapi.Assert(sps.Profile_tier_level.General_profile_idc == uint8(profile) && sps.Profile_tier_level.General_level_idc == 93, "profile-and-level-as-written")
	symapi.Assert(uint32(sps.Sps_max_sub_layers_minus1) == maxSub && sps.Log2_max_pic_order_cnt_lsb_minus4 == 4, "fields-before-the-ordering-info-as-written")
	for i := first; i <= maxSub; i++ {
		symapi.Assert(uint32(sps.Sps_max_dec_pic_buffering_minus1[i]) == dpb[i] && uint32(sps.Sps_max_num_reorder_pics[i]) == reorder[i] &&
			sps.Sps_max_latency_increase_plus1[i] == latency[i], "sub-layer-ordering-info-as-written")
	}
	symapi.Assert(sps.Log2_min_luma_coding_block_size_minus3 == 0 && sps.Log2_diff_max_min_luma_coding_block_size == 3 &&
		sps.Log2_diff_max_min_luma_transform_block_size == 3 && sps.Max_transform_hierarchy_depth_inter == 2 &&
		sps.Max_transform_hierarchy_depth_intra == 1, "fields-after-the-ordering-info-as-written")
	symapi.Assert(sps.Amp_enabled_flag == 1 && sps.Pcm_enabled_flag == 0 && sps.Sps_temporal_mvp_enabled_flag == 1 &&
		sps.Vui_parameters_present_flag == 0 && sps.Sps_extension_present_flag == 0, "tail-flags-as-written")
	symapi.Reach("end")
}
