package hevc

import "github.com/cnotch/ipchub/zzverif/symapi"

// VerifHevcTotal: arbitrary bytes into the H.265 SPS / VPS decoders: a result or an error,
// never an escaping panic or a non-terminating loop.
func VerifHevcTotal() {
	N := symapi.Param("N", 5)
	n := symapi.IntRange("n", 0, N)
	if symapi.Bool("vps") {
		data := append([]byte{0x40, 0x01}, symapi.Bytes("b", n)...)
		var vps H265RawVPS
		vps.Decode(data)
	} else {
		data := append([]byte{0x42, 0x01}, symapi.Bytes("b", n)...)
		var sps H265RawSPS
		sps.Decode(data)
	}
	symapi.Reach("end")
}

// VerifHevcDims: conformance-window cropping per H.265 7.4.3.2.1.
func VerifHevcDims() {
	var sps H265RawSPS
	cfi := symapi.IntRange("chroma_format_idc", 0, 3)
	sps.Chroma_format_idc = uint8(cfi)
	if cfi == 3 {
		sps.Separate_colour_plane_flag = uint8(symapi.IntRange("separate_colour_plane", 0, 1))
	}
	w, h := symapi.Uint16("w"), symapi.Uint16("h")
	symapi.Assume(w >= 8 && h >= 8 && w <= 8192 && h <= 8192)
	sps.Pic_width_in_luma_samples, sps.Pic_height_in_luma_samples = w, h
	cw := symapi.IntRange("conformance_window_flag", 0, 1)
	sps.Conformance_window_flag = uint8(cw)
	l, r, t, b := symapi.Uint8("l"), symapi.Uint8("r"), symapi.Uint8("t"), symapi.Uint8("b")
	sps.Conf_win_left_offset, sps.Conf_win_right_offset, sps.Conf_win_top_offset, sps.Conf_win_bottom_offset = uint16(l), uint16(r), uint16(t), uint16(b)
	subW, subH := 1, 1
	if sps.Separate_colour_plane_flag == 0 {
		switch cfi {
		case 1:
			subW, subH = 2, 2
		case 2:
			subW, subH = 2, 1
		}
	}
	wantW, wantH := int(w), int(h)
	if cw == 1 {
		wantW -= subW * (int(l) + int(r))
		wantH -= subH * (int(t) + int(b))
	}
	symapi.Assert(sps.Width() == wantW, "width-equals-standard")
	symapi.Assert(sps.Height() == wantH, "height-equals-standard")
	symapi.Reach("end")
}
