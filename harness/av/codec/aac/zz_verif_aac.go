package aac

import (
	"github.com/cnotch/ipchub/av/codec"
	"github.com/cnotch/ipchub/zzverif/symapi"
)

var verifRates = [16]int{96000, 88200, 64000, 48000, 44100, 32000, 24000, 22050, 16000, 12000, 11025, 8000, 7350, 0, 0, 0}

// VerifAscDecode: AudioSpecificConfig of 2..N bytes: object type, sampling frequency and
// channel configuration equal ISO 14496-3 1.6.2.1 for the plain (non-escape) layout; any
// input returns a result or an error without panicking.
func VerifAscDecode() {
	N := symapi.Param("N", 4)
	n := symapi.IntRange("n", 0, N)
	b := symapi.Bytes("b", n)
	var asc AudioSpecificConfig
	err := asc.Decode(b)
	if n >= 2 && err == nil {
		ot := b[0] >> 3
		fi := (b[0]&7)<<1 | b[1]>>7
		if ot != 31 && fi != 15 {
			ch := b[1] >> 3 & 0xf
			symapi.Assert(asc.ObjectType == ot || ot == 5 || ot == 29, "object-type")
			symapi.Assert(asc.SamplingIndex == fi && asc.SampleRate == verifRates[fi], "sampling-frequency")
			symapi.Assert(asc.ChannelConfig == ch, "channel-configuration")
			if (ot == 5 || ot == 29) && n >= 3 {
				// explicit hierarchical SBR / PS signalling (1.6.2.1): extensionSamplingFrequencyIndex
				// and the underlying object type follow. Outside the claim: the bit patterns ffmpeg
				// treats as the MP3onMP4 draft clash for object type 29.
				efi := (b[1]&7)<<1 | b[2]>>7
				core := b[2] >> 2 & 0x1f
				clash := ot == 29 && (b[1]>>0)&3 != 0 && ((b[1]&7)<<6|b[2]>>2)&0x3f == 0
				if efi < 13 && fi < 13 && core != 31 && !clash { // 13, 14 are reserved index values
					symapi.Assert(asc.Sbr == 1 && asc.ExtObjectType == 5, "explicit-sbr-signalled")
					symapi.Assert(asc.ExtSamplingIndex == efi && asc.ExtSampleRate == verifRates[efi], "extension-sampling-frequency")
					symapi.Assert(asc.ObjectType == core, "underlying-object-type")
					am := &codec.AudioMeta{Codec: "AAC", Sps: b}
					symapi.Assert(MetadataIsReady(am) && am.SampleRate == verifRates[efi], "reported-sample-rate-is-the-extension-rate")
				}
			}
		}
		symapi.Reach("accepted")
	}
	symapi.Reach("end")
}

// VerifAscExplicitFrequency: samplingFrequencyIndex 0xf is followed by the 24-bit sampling
// frequency itself (1.6.2.1): the reported sample rate is exactly that value, the channel
// configuration follows it.
func VerifAscExplicitFrequency() {
	ot := symapi.Byte("objectType")
	symapi.Assume(ot >= 1 && ot <= 4)
	f := symapi.Uint32("frequency")
	symapi.Assume(f < 1<<24)
	ch := symapi.Byte("channelConfiguration")
	symapi.Assume(ch >= 1 && ch <= 7)
	// 5 bits object type, 4 bits 0xf, 24 bits frequency, 4 bits channel configuration, 3 bits GASpecificConfig (0)
	v := uint64(ot)<<35 | uint64(0xf)<<31 | uint64(f)<<7 | uint64(ch)<<3
	b := []byte{byte(v >> 32), byte(v >> 24), byte(v >> 16), byte(v >> 8), byte(v)}
	var asc AudioSpecificConfig
	symapi.Assert(asc.Decode(b) == nil, "explicit-frequency-config-accepted")
	symapi.Assert(asc.ObjectType == ot && asc.SamplingIndex == 15, "object-type-and-escape-index")
	symapi.Assert(asc.SampleRate == int(f), "reported-sample-rate-is-the-explicit-frequency")
	symapi.Assert(asc.ChannelConfig == ch, "channel-configuration-after-the-explicit-frequency")
	am := &codec.AudioMeta{Codec: "AAC", Sps: b}
	if f != 0 {
		symapi.Assert(MetadataIsReady(am) && am.SampleRate == int(f), "stream-reports-the-explicit-frequency")
	}
	symapi.Reach("end")
}
