package aac

import "github.com/cnotch/ipchub/zzverif/symapi"

// VerifAscDecode: AudioSpecificConfig of 2..N bytes: object type, sampling frequency and
// channel configuration equal ISO 14496-3 1.6.2.1 for the plain (non-escape) layout; any
// input returns a result or an error without panicking.
func VerifAscDecode() {
	N := symapi.Param("N", 4)
	n := symapi.IntRange("n", 0, N)
	b := symapi.Bytes("b", n)
	var asc AudioSpecificConfig
	err := asc.Decode(b)
	if n >= 2 && err == nil {
		ot := b[0] >> 3
		fi := (b[0]&7)<<1 | b[1]>>7
		if ot != 31 && fi != 15 {
			ch := b[1] >> 3 & 0xf
			symapi.Assert(asc.ObjectType == ot || ot == 5 || ot == 29, "object-type")
			if ot != 5 && ot != 29 {
				symapi.Assert(asc.SamplingIndex == fi, "sampling-frequency-index")
				symapi.Assert(asc.ChannelConfig == ch, "channel-configuration")
			}
		}
		symapi.Reach("accepted")
	}
	symapi.Reach("end")
}
