package h264

import (
	"github.com/cnotch/ipchub/av/codec"
	"github.com/cnotch/ipchub/utils/bits"
	"github.com/cnotch/ipchub/zzverif/symapi"
)

// VerifSpsDims: Width/Height equal H.264 7.4.2.1.1 (frame cropping with CropUnitX/Y from
// chroma_format_idc, separate_colour_plane_flag and frame_mbs_only_flag).
func VerifSpsDims() {
	var sps RawSPS
	cfi := symapi.IntRange("chroma_format_idc", 0, 3)
	sps.ChromaFormatIdc = uint8(cfi)
	if cfi == 3 {
		sps.SeparateColourPlaneFlag = uint8(symapi.IntRange("separate_colour_plane", 0, 1))
	}
	fmo := symapi.IntRange("frame_mbs_only", 0, 1)
	sps.FrameMbsOnlyFlag = uint8(fmo)
	wmbs := symapi.Uint16("pic_width_in_mbs_minus1")
	hmap := symapi.Uint16("pic_height_in_map_units_minus1")
	symapi.Assume(wmbs < 1024 && hmap < 1024)
	sps.PicWidthInMbsMinus1, sps.PicHeightInMapUnitsMinus1 = wmbs, hmap
	sps.FrameCroppingFlag = 1
	l, r, t, b := symapi.Uint16("crop_left"), symapi.Uint16("crop_right"), symapi.Uint16("crop_top"), symapi.Uint16("crop_bottom")
	sps.FrameCropLeftOffset, sps.FrameCropRightOffset, sps.FrameCropTopOffset, sps.FrameCropBottomOffset = l, r, t, b
	// reference
	chromaArrayType := cfi
	if sps.SeparateColourPlaneFlag == 1 {
		chromaArrayType = 0
	}
	subW, subH := 1, 1
	switch cfi {
	case 1:
		subW, subH = 2, 2
	case 2:
		subW, subH = 2, 1
	}
	cropX, cropY := 1, 2-fmo
	if chromaArrayType != 0 {
		cropX, cropY = subW, subH*(2-fmo)
	}
	picW := (int(wmbs) + 1) * 16
	picH := (2 - fmo) * (int(hmap) + 1) * 16
	// the standard requires the cropped rectangle to be non-empty
	symapi.Assume(int(l) < 4096 && int(r) < 4096 && int(t) < 4096 && int(b) < 4096)
	symapi.Assume(cropX*(int(l)+int(r)) < picW && cropY*(int(t)+int(b)) < picH)
	symapi.Assert(sps.Width() == picW-cropX*(int(l)+int(r)), "width-equals-standard")
	symapi.Assert(sps.Height() == picH-cropY*(int(t)+int(b)), "height-equals-standard")
	symapi.Reach("end")
}

// VerifSpsTotal: arbitrary bytes: Decode returns (error or result), no escaping panic, and
// the reported size of an accepted SPS is positive.
func VerifSpsTotal() {
	N := symapi.Param("N", 6)
	n := symapi.IntRange("n", 0, N)
	data := append([]byte{0x67}, symapi.Bytes("b", n)...)
	var sps RawSPS
	err := sps.Decode(data)
	if err == nil {
		symapi.Reach("accepted")
	}
	symapi.Reach("end")
}

func VerifSpsDimsTwin() {
	var sps RawSPS
	sps.ChromaFormatIdc = 1
	sps.FrameMbsOnlyFlag = 1
	sps.PicWidthInMbsMinus1 = 119
	sps.FrameCropRightOffset = symapi.Uint16("crop_right")
	symapi.Assume(sps.FrameCropRightOffset < 8)
	symapi.Assert(sps.Width() == 1920, "twin-cropping-ignored")
}

// verifBitW packs bits (possibly symbolic) MSB-first.
type verifBitW struct {
	buf []byte
	n   int
}

func (w *verifBitW) bit(b byte) {
	if w.n%8 == 0 {
		w.buf = append(w.buf, 0)
	}
	w.buf[w.n/8] |= (b & 1) << uint(7-w.n%8)
	w.n++
}

// se writes the Exp-Golomb code with `zeros` leading zeros whose info bits are the low
// `zeros` bits of x, and returns the se(v) value it denotes.
func (w *verifBitW) se(zeros int, x uint8) int {
	for i := 0; i < zeros; i++ {
		w.bit(0)
	}
	w.bit(1)
	info := 0
	for i := zeros - 1; i >= 0; i-- {
		b := (x >> uint(i)) & 1
		w.bit(b)
		info |= int(b) << uint(i)
	}
	k := (1 << uint(zeros)) - 1 + info // codeNum
	if k%2 == 1 {
		return (k + 1) / 2
	}
	return -(k / 2)
}

// VerifScalingList: scaling_list() (H.264 7.3.2.1.1.1) consumes exactly the delta_scale
// codes the standard says: nextScale = (lastScale + delta_scale + 256) % 256 and the list
// ends at the first nextScale == 0. K symbolic deltas (any code length 1..15 bits) are
// followed by zero deltas; what follows the list is then read from the right bit.
func VerifScalingList() {
	K := symapi.Param("K", 2)
	idx := 0 // a 4x4 list (16 entries); with L=1 also an 8x8 list (64 entries)
	if symapi.Param("L", 0) == 1 {
		idx = symapi.Choose("list", 2) * 6
	}
	size := 16
	if idx >= 6 {
		size = 64
	}
	w := &verifBitW{}
	var deltas, lens []int
	for k := 0; k < K; k++ {
		zeros := symapi.Choose("zeros", 9)
		x := symapi.Uint8("info")
		d := w.se(zeros, x)
		symapi.Assume(d >= -128 && d <= 127)
		deltas = append(deltas, d)
		lens = append(lens, 2*zeros+1)
	}
	for len(deltas) < size {
		w.bit(1) // delta_scale = 0
		deltas = append(deltas, 0)
		lens = append(lens, 1)
	}
	w.bit(1)
	// the standard
	want := 0 // bits consumed
	last, next := 8, 8
	for j := 0; j < size; j++ {
		if next != 0 {
			next = (last + deltas[j] + 256) % 256
			want += lens[j]
		}
		if next != 0 {
			last = next
		}
	}
	var sps RawSPS
	r := bits.NewReader(w.buf)
	sps.scanList(r, idx)
	symapi.Assert(r.Offset() == want, "scaling-list-consumes-the-standard-number-of-bits")
	symapi.Reach("end")
}

func (w *verifBitW) u(nbits int, v uint32) {
	for i := nbits - 1; i >= 0; i-- {
		w.bit(byte(v>>uint(i)) & 1)
	}
}

func (w *verifBitW) ue(v uint32) {
	n := 0
	for (v+1)>>uint(n+1) != 0 {
		n++
	}
	w.u(n, 0)
	w.u(n+1, v+1)
}

// verifBaselineSps writes a baseline-profile SPS (7.3.2.1.1) of wmbs x hmbs macroblocks, with
// optional frame cropping and optional VUI timing information.
func verifBaselineSps(wmbs, hmbs uint32, crop [4]uint32, cropping, timing bool) []byte {
	w := &verifBitW{}
	w.u(8, 0x67)
	w.u(8, 66) // profile_idc: baseline (no chroma / scaling block)
	w.u(8, 0xc0)
	w.u(8, 31)
	w.ue(0)   // seq_parameter_set_id
	w.ue(4)   // log2_max_frame_num_minus4
	w.ue(2)   // pic_order_cnt_type 2: nothing more
	w.ue(1)   // max_num_ref_frames
	w.u(1, 0) // gaps_in_frame_num_value_allowed_flag
	w.ue(wmbs - 1)
	w.ue(hmbs - 1)
	w.u(1, 1) // frame_mbs_only_flag
	w.u(1, 1) // direct_8x8_inference_flag
	if cropping {
		w.u(1, 1)
		for _, c := range crop {
			w.ue(c)
		}
	} else {
		w.u(1, 0)
	}
	if timing {
		w.u(1, 1) // vui_parameters_present_flag
		w.u(4, 0) // aspect_ratio_info, overscan_info, video_signal_type, chroma_loc_info: absent
		w.u(1, 1) // timing_info_present_flag
		w.u(32, 0x01010101)
		w.u(32, 0x32323232)
		w.u(1, 1) // fixed_frame_rate_flag
		w.u(4, 0) // nal_hrd, vcl_hrd, pic_struct, bitstream_restriction: absent
	} else {
		w.u(1, 0)
	}
	w.u(1, 1) // rbsp_stop_one_bit
	return w.buf
}

// VerifSpsPerStream: what MetadataIsReady reports for a stream depends on that stream's SPS
// only - not on which SPS (with other optional branches: cropping, VUI timing) was decoded
// before it, for another stream or an earlier parameter set of the same one.
func VerifSpsPerStream() {
	prevCrop := symapi.Bool("previousSpsCropped")
	prevTiming := symapi.Bool("previousSpsHasTiming")
	prev := verifBaselineSps(80, 45, [4]uint32{0, 0, 0, 4}, prevCrop, prevTiming)
	curCrop := symapi.Bool("thisSpsCropped")
	curTiming := symapi.Bool("thisSpsHasTiming")
	cur := verifBaselineSps(120, 68, [4]uint32{0, 0, 0, 4}, curCrop, curTiming)
	pps := []byte{0x68, 0xce, 0x3c, 0x80}
	m1 := &codec.VideoMeta{Codec: "H264", Sps: prev, Pps: pps}
	symapi.Assert(MetadataIsReady(m1), "previous-stream-ready")
	m2 := &codec.VideoMeta{Codec: "H264", Sps: cur, Pps: pps}
	symapi.Assert(MetadataIsReady(m2), "this-stream-ready")
	var fresh RawSPS
	symapi.Assert(fresh.Decode(cur) == nil, "sps-decodes")
	symapi.Assert(m2.Width == fresh.Width() && m2.Height == fresh.Height(), "dimensions-from-this-sps-only")
	symapi.Assert(m2.FixedFrameRate == fresh.IsFixedFrameRate(), "fixed-rate-flag-from-this-sps-only")
	wantH := 68 * 16
	if curCrop {
		wantH -= 2 * 4
	}
	symapi.Assert(m2.Width == 1920 && m2.Height == wantH, "dimensions-equal-the-standard")
	symapi.Reach("end")
}
