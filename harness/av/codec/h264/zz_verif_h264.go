package h264

import "github.com/cnotch/ipchub/zzverif/symapi"

// VerifSpsDims: Width/Height equal H.264 7.4.2.1.1 (frame cropping with CropUnitX/Y from
// chroma_format_idc, separate_colour_plane_flag and frame_mbs_only_flag).
func VerifSpsDims() {
	var sps RawSPS
	cfi := symapi.IntRange("chroma_format_idc", 0, 3)
	sps.ChromaFormatIdc = uint8(cfi)
	if cfi == 3 {
		sps.SeparateColourPlaneFlag = uint8(symapi.IntRange("separate_colour_plane", 0, 1))
	}
	fmo := symapi.IntRange("frame_mbs_only", 0, 1)
	sps.FrameMbsOnlyFlag = uint8(fmo)
	wmbs := symapi.Uint16("pic_width_in_mbs_minus1")
	hmap := symapi.Uint16("pic_height_in_map_units_minus1")
	symapi.Assume(wmbs < 1024 && hmap < 1024)
	sps.PicWidthInMbsMinus1, sps.PicHeightInMapUnitsMinus1 = wmbs, hmap
	sps.FrameCroppingFlag = 1
	l, r, t, b := symapi.Uint16("crop_left"), symapi.Uint16("crop_right"), symapi.Uint16("crop_top"), symapi.Uint16("crop_bottom")
	sps.FrameCropLeftOffset, sps.FrameCropRightOffset, sps.FrameCropTopOffset, sps.FrameCropBottomOffset = l, r, t, b
	// reference
	chromaArrayType := cfi
	if sps.SeparateColourPlaneFlag == 1 {
		chromaArrayType = 0
	}
	subW, subH := 1, 1
	switch cfi {
	case 1:
		subW, subH = 2, 2
	case 2:
		subW, subH = 2, 1
	}
	cropX, cropY := 1, 2-fmo
	if chromaArrayType != 0 {
		cropX, cropY = subW, subH*(2-fmo)
	}
	picW := (int(wmbs) + 1) * 16
	picH := (2 - fmo) * (int(hmap) + 1) * 16
	// the standard requires the cropped rectangle to be non-empty
	symapi.Assume(int(l) < 4096 && int(r) < 4096 && int(t) < 4096 && int(b) < 4096)
	symapi.Assume(cropX*(int(l)+int(r)) < picW && cropY*(int(t)+int(b)) < picH)
	symapi.Assert(sps.Width() == picW-cropX*(int(l)+int(r)), "width-equals-standard")
	symapi.Assert(sps.Height() == picH-cropY*(int(t)+int(b)), "height-equals-standard")
	symapi.Reach("end")
}

// VerifSpsTotal: arbitrary bytes: Decode returns (error or result), no escaping panic, and
// the reported size of an accepted SPS is positive.
func VerifSpsTotal() {
	N := symapi.Param("N", 6)
	n := symapi.IntRange("n", 0, N)
	data := append([]byte{0x67}, symapi.Bytes("b", n)...)
	var sps RawSPS
	err := sps.Decode(data)
	if err == nil {
		symapi.Reach("accepted")
	}
	symapi.Reach("end")
}

func VerifSpsDimsTwin() {
	var sps RawSPS
	sps.ChromaFormatIdc = 1
	sps.FrameMbsOnlyFlag = 1
	sps.PicWidthInMbsMinus1 = 119
	sps.FrameCropRightOffset = symapi.Uint16("crop_right")
	symapi.Assume(sps.FrameCropRightOffset < 8)
	symapi.Assert(sps.Width() == 1920, "twin-cropping-ignored")
}
