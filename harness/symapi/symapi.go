// Package symapi is the nondeterminism / assertion API used by the verification
// harnesses. Under the symbolic executor (gosym) every function here is intercepted
// by name. Natively (replay of a solver model) the functions read a tape of values
// from the JSON file named by $VERIF_TAPE.
package symapi

import (
	"encoding/json"
	"fmt"
	"os"
	"runtime"
)

type entry struct {
	Name string `json:"name"`
	Val  uint64 `json:"val"`
}

type tapeFile struct {
	Tape   []entry        `json:"tape"`
	Params map[string]int `json:"params"`
	Sched  []int          `json:"sched"`
}

var (
	tf     tapeFile
	pos    int
	loaded bool
	// Reached records Reach labels during a native run.
	Reached = map[string]bool{}
)

func load() {
	if loaded {
		return
	}
	loaded = true
	p := os.Getenv("VERIF_TAPE")
	if p == "" {
		return
	}
	b, err := os.ReadFile(p)
	if err != nil {
		panic("verif replay: cannot read tape: " + err.Error())
	}
	if err := json.Unmarshal(b, &tf); err != nil {
		panic("verif replay: bad tape: " + err.Error())
	}
}

// Reset rewinds the tape (for replay tests running several harnesses).
func Reset() { pos = 0; loaded = false; Reached = map[string]bool{} }

func next(name string) uint64 {
	load()
	if pos >= len(tf.Tape) {
		return 0
	}
	e := tf.Tape[pos]
	pos++
	if e.Name != name {
		panic(fmt.Sprintf("verif replay: tape mismatch at %d: want %q, tape has %q", pos-1, name, e.Name))
	}
	return e.Val
}

func Int64(name string) int64   { return int64(next(name)) }
func Int(name string) int       { return int(next(name)) }
func Int32(name string) int32   { return int32(next(name)) }
func Int16(name string) int16   { return int16(next(name)) }
func Int8(name string) int8     { return int8(next(name)) }
func Uint64(name string) uint64 { return next(name) }
func Uint(name string) uint     { return uint(next(name)) }
func Uint32(name string) uint32 { return uint32(next(name)) }
func Uint16(name string) uint16 { return uint16(next(name)) }
func Uint8(name string) uint8   { return uint8(next(name)) }
func Byte(name string) byte     { return uint8(next(name)) }
func Bool(name string) bool     { return next(name)&1 == 1 }

// IntRange returns an integer in [lo,hi]; the executor case-splits on it.
func IntRange(name string, lo, hi int) int {
	v := int(next(name))
	if v < lo || v > hi {
		panic("verif replay: IntRange value outside range")
	}
	return v
}

// Choose returns a value in [0,n); the executor forks n ways.
func Choose(name string, n int) int {
	v := int(next(name))
	if v < 0 || v >= n {
		panic("verif replay: Choose value outside range")
	}
	return v
}

// Bytes returns n fully symbolic bytes (n must be concrete).
func Bytes(name string, n int) []byte {
	b := make([]byte, n)
	for i := range b {
		b[i] = byte(next(fmt.Sprintf("%s[%d]", name, i)))
	}
	return b
}

// String returns a string of n symbolic bytes.
func String(name string, n int) string { return string(Bytes(name, n)) }

// OneOf reports whether b occurs in set (the executor builds one disjunction, no fork).
func OneOf(b byte, set string) bool {
	for i := 0; i < len(set); i++ {
		if set[i] == b {
			return true
		}
	}
	return false
}

var tempDir string

// TempPath returns a path for a scratch file of the scenario (a virtual file system
// with a crash model under the executor; a real temporary directory natively).
func TempPath(name string) string {
	if tempDir == "" {
		d, err := os.MkdirTemp("", "verif-fs-")
		if err != nil {
			panic("verif replay: " + err.Error())
		}
		tempDir = d
	}
	return tempDir + "/" + name
}

// SetFile creates a file with durable content.
func SetFile(path string, content []byte) {
	if err := os.WriteFile(path, content, 0o644); err != nil {
		panic("verif replay: " + err.Error())
	}
}

// DurableFile returns what a restart would find at path after a crash: under the
// executor the durable image of the file-system model (written-but-unsynced bytes are
// durable up to an arbitrary prefix); natively the current file content.
func DurableFile(path string) (content []byte, exists bool) {
	b, err := os.ReadFile(path)
	if err != nil {
		return nil, false
	}
	return b, true
}

// NoLargeAlloc runs fn and fails (label "alloc-limit") if it allocates more than limit
// bytes in a single make/append. Natively the total allocation of fn is measured.
func NoLargeAlloc(limit int, fn func()) {
	var a, b runtime.MemStats
	runtime.ReadMemStats(&a)
	fn()
	runtime.ReadMemStats(&b)
	if b.TotalAlloc-a.TotalAlloc > uint64(limit)+1<<20 {
		panic(Violation{"alloc-limit"})
	}
}

// Go starts fn as a thread of the scenario.
func Go(fn func()) { go fn() }

// Yield is a possible context switch.
func Yield() {}

// Deterministic switches interleaving exploration off (set-up phase) or back on.
func Deterministic(on bool) {}

// AdvanceClock moves the executor's concrete clock forward (clock_mode=concrete). A native
// run cannot skip time: harnesses must not depend on it for the branch they replay.
func AdvanceClock(seconds int) {}

// Settle lets the background goroutines started so far run until they block, without
// exploring their interleavings (set-up phase of a scenario).
func Settle() {}

// Quiesce waits until no thread of the scenario can run and returns how many are still alive.
func Quiesce() int { return 0 }

// Param returns a bound from the check configuration.
func Param(name string, def int) int {
	load()
	if v, ok := tf.Params[name]; ok {
		return v
	}
	return def
}

// Assume restricts the inputs considered.
func Assume(c bool) {
	if !c {
		panic("verif replay: assumption violated by tape (encoding error)")
	}
}

// Violation is the panic value raised natively by a failed Assert.
type Violation struct{ Label string }

func (v Violation) Error() string { return "VERIF-VIOLATION assert " + v.Label }

// Assert states the property.
func Assert(c bool, label string) {
	if !c {
		panic(Violation{label})
	}
}

// Possible states an existential obligation: the executor reports a violation when c is false
// for EVERY value of the environment's free choices (e.g. random bytes) on this path; a
// native run reports it when c is false in that run.
func Possible(c bool, label string) {
	if !c {
		panic(Violation{label})
	}
}

// Reach marks a point that must be reachable (vacuity witness).
func Reach(label string) { Reached[label] = true }

// Sched exposes the schedule of a replayed concurrent scenario.
func Sched() []int { load(); return tf.Sched }
