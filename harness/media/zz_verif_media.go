package media

import (
	"time"

	"github.com/cnotch/ipchub/av/format/hls"
	"github.com/cnotch/ipchub/av/format/rtp"
	"github.com/cnotch/ipchub/media/cache"
	"github.com/cnotch/ipchub/zzverif/symapi"
	"github.com/cnotch/queue"
)

// ---------- fakes ----------

type verifConsumer struct {
	got         []Pack
	closed      int
	panicAt     int // panic when receiving the panicAt-th pack (1-based); 0 = never
	closeAt     int // after this many packs, close the consumption (to end the loop)
	closePanics bool
	c           *consumption
}

func (v *verifConsumer) Consume(p Pack) {
	v.got = append(v.got, p)
	if v.panicAt > 0 && len(v.got) == v.panicAt {
		panic("consumer failure")
	}
	if v.closeAt > 0 && len(v.got) == v.closeAt && v.c != nil {
		v.c.Close()
	}
}
func (v *verifConsumer) Close() error {
	v.closed++
	if v.closePanics {
		panic("close failure")
	}
	return nil
}

func verifStream(path string) *Stream {
	return &Stream{path: path, startOn: time.Now(), cache: emptyCache{}, flvCache: emptyCache{},
		flvMuxer: emptyFlvMuxer{}, rtpDemuxer: emptyRtpDemuxer{}, attrs: map[string]string{}}
}

func verifConsumption(s *Stream, cid CID) *consumption {
	cs := &s.consumptions
	if cid.Type() == FLVPacket {
		cs = &s.flvConsumptions
	}
	ci, ok := cs.Load(cid)
	if !ok {
		return nil
	}
	return ci.(*consumption)
}

func verifPack(name string, n int) *rtp.Packet {
	return &rtp.Packet{Channel: rtp.ChannelVideo, Data: symapi.Bytes(name, n)}
}

// ---------- queue summary used by the C04 step harnesses ----------
// In the executor (*queue.SyncQueue).Len/Push and verifFill are substituted by the
// functions below (see checks/C04.json); natively verifFill really pushes n elements.

var verifQ struct {
	n      int
	pushed int
	last   queue.Elem
}

func verifFill(q *queue.SyncQueue, n int) {
	for i := 0; i < n; i++ {
		q.Push(&rtp.Packet{})
	}
}
func verifFillStub(q *queue.SyncQueue, n int) { verifQ.n = n }
func verifQLenStub(q *queue.SyncQueue) int    { return verifQ.n }
func verifQPushStub(q *queue.SyncQueue, e queue.Elem) {
	verifQ.n++
	verifQ.pushed++
	verifQ.last = e
}

// ---------- C04 ----------

// VerifSendStep: one send from an arbitrary backlog state.
func VerifSendStep() {
	s := verifStream("/a")
	rec := &verifConsumer{}
	cid := s.StartConsumeNoGopCache(rec, RTPPacket, "x")
	c := verifConsumption(s, cid)
	symapi.Assert(c != nil, "consumption-registered")
	symapi.Assert(c.maxQLen == 1000, "backlog-limit-is-1000")
	n := symapi.Int("n")
	symapi.Assume(n >= 0 && n <= 1<<20)
	disc := symapi.Bool("discarding")
	key := symapi.Bool("key")
	c.discarding = disc
	verifFill(c.recvQueue, n)
	p := verifPack("p", 2)
	c.send(p, key)
	after := c.recvQueue.Len()
	enq := after - n
	symapi.Assert(enq == 0 || enq == 1, "at-most-one-enqueued")
	if !key {
		symapi.Assert(c.discarding == disc, "discarding-changes-only-at-key-frame")
		symapi.Assert((enq == 1) == !disc, "non-key-enqueued-iff-not-discarding")
	} else {
		if disc {
			symapi.Assert(c.discarding == !(n < 1000), "dropping-ends-only-below-limit-at-key-frame")
		} else {
			symapi.Assert(c.discarding == (n > 1000), "dropping-begins-only-above-limit-at-key-frame")
		}
		if n > 1000 {
			symapi.Assert(enq == 0, "key-frame-over-limit-not-enqueued")
		}
		symapi.Assert((enq == 1) == !c.discarding, "enqueued-iff-not-discarding-after-decision")
	}
	symapi.Reach("end")
}

// VerifBacklogInvariant: the inductive invariant of DESIGN A.1 is preserved by every
// publish step (real send) and every pop; it implies n <= maxQLen + G (+ join replay R).
func VerifBacklogInvariant() {
	s := verifStream("/a")
	rec := &verifConsumer{}
	cid := s.StartConsumeNoGopCache(rec, RTPPacket, "x")
	c := verifConsumption(s, cid)
	G := symapi.Int("G")
	R := symapi.Int("R")
	n := symapi.Int("n")
	o := symapi.Int("o")  // packets offered since the last key packet (incl. it)
	sq := symapi.Int("s") // of those, enqueued
	disc := symapi.Bool("discarding")
	symapi.Assume(G >= 1 && G <= 4096 && R >= 0 && R <= 1<<16 && n >= 0 && n <= 1<<20)
	M := c.maxQLen
	if R > M {
		M = R
	}
	inv := func(disc bool, n, sq, o int) bool {
		if !(sq >= 0 && sq <= o && o >= 0 && o <= G) {
			return false
		}
		if disc {
			return n <= M+G
		}
		return n <= M+sq
	}
	symapi.Assume(inv(disc, n, sq, o))
	c.discarding = disc
	verifFill(c.recvQueue, n)
	switch symapi.Choose("event", 3) {
	case 0: // key packet
		c.send(verifPack("p", 1), true)
		n2 := c.recvQueue.Len()
		s2 := 0
		if n2 > n {
			s2 = 1
		}
		symapi.Assert(inv(c.discarding, n2, s2, 1), "invariant-preserved-by-key-packet")
		symapi.Assert(n2 <= M+G, "backlog-bounded")
	case 1: // non-key packet; the GOP hypothesis says o < G before it
		symapi.Assume(o >= 1 && o < G)
		c.send(verifPack("p", 1), false)
		n2 := c.recvQueue.Len()
		s2 := sq
		if n2 > n {
			s2 = sq + 1
		}
		symapi.Assert(inv(c.discarding, n2, s2, o+1), "invariant-preserved-by-non-key-packet")
		symapi.Assert(n2 <= M+G, "backlog-bounded")
	case 2: // the consumer pops one
		symapi.Assume(n >= 1)
		symapi.Assert(inv(disc, n-1, sq, o), "invariant-preserved-by-pop")
	}
	symapi.Reach("end")
}

// VerifConsumerPanic: a panicking consumer is detached and closed; the other consumer and
// the publisher are untouched.
func VerifConsumerPanic() {
	s := verifStream("/a")
	bad := &verifConsumer{panicAt: symapi.IntRange("panicAt", 1, 2), closePanics: symapi.Bool("closePanicsToo")}
	good := &verifConsumer{}
	cb := s.StartConsumeNoGopCache(bad, RTPPacket, "bad")
	cg := s.StartConsumeNoGopCache(good, RTPPacket, "good")
	p1, p2 := verifPack("p1", 1), verifPack("p2", 1)
	symapi.Assert(s.WriteRtpPacket(p1) == nil && s.WriteRtpPacket(p2) == nil, "publisher-not-disturbed")
	c := verifConsumption(s, cb)
	c.consume() // the delivery goroutine of the bad consumer
	symapi.Assert(bad.closed == 1, "panicking-consumer-closed")
	symapi.Assert(verifConsumption(s, cb) == nil, "panicking-consumer-detached")
	g := verifConsumption(s, cg)
	symapi.Assert(g != nil && g.recvQueue.Len() == 2 && good.closed == 0, "other-consumer-untouched")
	symapi.Assert(s.ConsumerCount() == 1, "consumer-count")
	p3 := verifPack("p3", 1)
	symapi.Assert(s.WriteRtpPacket(p3) == nil && g.recvQueue.Len() == 3, "publisher-continues")
	symapi.Reach("end")
}

func VerifSendStepTwin() {
	s := verifStream("/a")
	cid := s.StartConsumeNoGopCache(&verifConsumer{}, RTPPacket, "x")
	c := verifConsumption(s, cid)
	n := symapi.Int("n")
	symapi.Assume(n >= 0 && n <= 5000)
	verifFill(c.recvQueue, n)
	c.send(verifPack("p", 1), true)
	symapi.Assert(c.recvQueue.Len() == n+1, "twin-key-frame-always-enqueued")
}

// ---------- C01 ----------

// VerifFifo: the real SyncQueue and the real consume loop deliver exactly what was sent,
// in order, once.
func VerifFifo() {
	K := symapi.Param("K", 3)
	s := verifStream("/a")
	rec := &verifConsumer{}
	cid := s.StartConsumeNoGopCache(rec, RTPPacket, "x")
	c := verifConsumption(s, cid)
	rec.c = c
	k := symapi.IntRange("k", 1, K)
	rec.closeAt = k
	var sent []*rtp.Packet
	var copies [][]byte
	for i := 0; i < k; i++ {
		p := verifPack("p"+string(rune('0'+i)), symapi.IntRange("len"+string(rune('0'+i)), 0, 2))
		sent = append(sent, p)
		copies = append(copies, append([]byte(nil), p.Data...))
		c.send(p, symapi.Bool("key"+string(rune('0'+i))))
	}
	c.consume()
	symapi.Assert(len(rec.got) == k, "every-packet-delivered-once")
	for i := 0; i < k && i < len(rec.got); i++ {
		symapi.Assert(rec.got[i] == Pack(sent[i]), "same-packet-same-order")
		d := rec.got[i].(*rtp.Packet).Data
		symapi.Assert(len(d) == len(copies[i]), "payload-length-unchanged")
		for j := range d {
			symapi.Assert(d[j] == copies[i][j], "payload-bytes-unchanged")
		}
	}
	symapi.Assert(rec.closed == 1, "consumer-closed-once")
	symapi.Reach("end")
}

// VerifFanout: what consumer A receives does not depend on B and C attaching/detaching.
func VerifFanout() {
	K := symapi.Param("K", 3)
	s := verifStream("/a")
	a, b, cc := &verifConsumer{}, &verifConsumer{}, &verifConsumer{}
	attachA := symapi.IntRange("attachA", 0, K)
	attachB := symapi.IntRange("attachB", 0, K)
	detachB := symapi.IntRange("detachB", attachB, K)
	attachC := symapi.IntRange("attachC", 0, K)
	var cidA, cidB, cidC CID
	var ca *consumption
	var sent []*rtp.Packet
	for i := 0; i <= K; i++ {
		if i == attachA {
			cidA = s.StartConsumeNoGopCache(a, RTPPacket, "a")
			ca = verifConsumption(s, cidA)
		}
		if i == attachB {
			cidB = s.StartConsumeNoGopCache(b, RTPPacket, "b")
		}
		if i == attachC {
			cidC = s.StartConsumeNoGopCache(cc, RTPPacket, "c")
		}
		if i == detachB && i > attachB {
			s.StopConsume(cidB)
		}
		if i < K {
			p := verifPack("p"+string(rune('0'+i)), 1)
			sent = append(sent, p)
			symapi.Assert(s.WriteRtpPacket(p) == nil, "publish-ok")
		}
	}
	_ = cidC
	want := sent[attachA:]
	got := ca.recvQueue.Queue().Elems()
	symapi.Assert(len(got) == len(want), "consumer-A-gets-all-packets-after-attach")
	for i := 0; i < len(want) && i < len(got); i++ {
		symapi.Assert(got[i] == queue.Elem(want[i]), "consumer-A-order-and-identity")
	}
	symapi.Assert(cidA != cidB && cidA != cidC && cidB != cidC, "distinct-consumer-ids")
	symapi.Reach("end")
}

func VerifFifoTwin() {
	s := verifStream("/a")
	rec := &verifConsumer{closeAt: 2}
	cid := s.StartConsumeNoGopCache(rec, RTPPacket, "x")
	c := verifConsumption(s, cid)
	rec.c = c
	p1, p2 := verifPack("p1", 1), verifPack("p2", 1)
	c.send(p1, false)
	c.send(p2, false)
	c.consume()
	symapi.Assert(rec.got[0] == Pack(p2), "twin-lifo")
}

// VerifFanoutWithStalledConsumer: a consumer that is dropping for backlog does not change
// what the other consumers receive, whatever the iteration order over the consumers.
func VerifFanoutWithStalledConsumer() {
	s := verifStream("/a")
	n := symapi.IntRange("consumers", 2, 3)
	var cons []*consumption
	for i := 0; i < n; i++ {
		cid := s.StartConsumeNoGopCache(&verifConsumer{}, RTPPacket, "c")
		cons = append(cons, verifConsumption(s, cid))
	}
	stalled := symapi.IntRange("stalled", 0, n-1)
	cons[stalled].discarding = true // it went over its backlog limit at an earlier key frame
	verifFill(cons[stalled].recvQueue, 3)
	K := symapi.Param("K", 2)
	var sent []*rtp.Packet
	for k := 0; k < K; k++ {
		p := verifPack("p"+string(rune('0'+k)), 1)
		sent = append(sent, p)
		symapi.Assert(s.WriteRtpPacket(p) == nil, "publish-ok")
	}
	for i, c := range cons {
		if i == stalled {
			symapi.Assert(c.recvQueue.Len() == 3, "stalled-consumer-keeps-dropping-non-key-packets")
			continue
		}
		got := c.recvQueue.Queue().Elems()
		symapi.Assert(len(got) == K, "healthy-consumer-gets-every-packet")
		for k := 0; k < K && k < len(got); k++ {
			symapi.Assert(got[k] == queue.Elem(sent[k]), "healthy-consumer-order-and-identity")
		}
	}
	symapi.Reach("end")
}

// VerifJoinBaseCase (C04, base case of the backlog induction): whatever the size of the
// GOP replayed to a joining consumer (classes up to 1500 packets, around the limit), the
// consumer starts with exactly the replay queued, not dropping, and with the FIXED backlog
// limit of 1000 that VerifSendStep's step case assumes.
func VerifJoinBaseCase() {
	s := verifStream("/a")
	s.cache = cache.NewH264Cache(true)
	mk := func(b0 byte) *rtp.Packet { return &rtp.Packet{Channel: rtp.ChannelVideo, Data: []byte{b0, 1, 2}} }
	r := []int{0, 1, 3, 499, 500, 501, 999, 1000, 1001, 1500}[symapi.Choose("gopPackets", 10)]
	s.WriteRtpPacket(mk(0x67))
	s.WriteRtpPacket(mk(0x68))
	for i := 0; i < r; i++ {
		if i == 0 {
			s.WriteRtpPacket(mk(0x65))
		} else {
			s.WriteRtpPacket(mk(0x41))
		}
	}
	flv := symapi.Bool("flv")
	var cid CID
	if flv {
		cid = s.StartConsume(&verifConsumer{}, FLVPacket, "j")
	} else {
		cid = s.StartConsume(&verifConsumer{}, RTPPacket, "j")
	}
	c := verifConsumption(s, cid)
	symapi.Assert(c != nil, "joined")
	symapi.Assert(c.maxQLen == 1000, "backlog-limit-is-the-fixed-1000-after-any-join-replay")
	symapi.Assert(!c.discarding, "joiner-not-dropping")
	if !flv {
		symapi.Assert(c.recvQueue.Len() == r+2, "queue-holds-exactly-the-replay")
	}
	symapi.Reach("end")
}

// VerifStreamWithHls lets harnesses of other packages register a stream whose HLS playlist is
// the given one.
func VerifStreamWithHls(path string, pl *hls.Playlist) *Stream {
	s := verifStream(path)
	s.hlsPlaylist = pl
	Regist(s)
	return s
}
