package media

import (
	"github.com/cnotch/ipchub/av/format/flv"
	"github.com/cnotch/ipchub/av/format/rtp"
	"github.com/cnotch/ipchub/media/cache"
	"github.com/cnotch/ipchub/zzverif/symapi"
	"github.com/cnotch/queue"
)

// VerifJoinRace (C02/C01): a consumer joins while the publisher writes a packet. Whatever
// the interleaving, what the consumer is given (cached part followed by live part) has no
// packet twice, misses no packet of the current GOP, and never goes backwards in stream
// order.
func VerifJoinRace() {
	symapi.Deterministic(true)
	s := verifStream("/a")
	s.cache = cache.NewH264Cache(true)
	mk := func(b0 byte) *rtp.Packet { return &rtp.Packet{Channel: rtp.ChannelVideo, Data: []byte{b0, 1, 2}} }
	sps, pps, idr, p1, p2 := mk(0x67), mk(0x68), mk(0x65), mk(0x41), mk(0x41)
	all := []*rtp.Packet{sps, pps, idr, p1, p2}
	for _, p := range all[:4] {
		s.WriteRtpPacket(p)
	}
	symapi.Deterministic(false)
	rec := &verifConsumer{}
	symapi.Go(func() { s.WriteRtpPacket(p2) }) // the publisher's next packet
	cid := s.StartConsume(rec, RTPPacket, "late joiner")
	symapi.Quiesce()
	c := verifConsumption(s, cid)
	var d []queue.Elem
	for _, p := range rec.got {
		d = append(d, p)
	}
	if c != nil {
		d = append(d, c.recvQueue.Queue().Elems()...)
	}
	idx := func(e queue.Elem) int {
		for i, p := range all {
			if e == queue.Elem(p) {
				return i
			}
		}
		return -1
	}
	count := make([]int, len(all))
	prev := -1
	for _, e := range d {
		i := idx(e)
		symapi.Assert(i >= 0, "join-only-stream-packets")
		count[i]++
		if i >= 2 { // media packets
			symapi.Assert(i >= prev, "join-never-goes-backwards-in-stream-order")
			prev = i
		}
	}
	symapi.Assert(count[0] >= 1 && count[1] >= 1, "join-has-parameter-sets")
	for i := range all {
		symapi.Assert(count[i] <= 1, "join-no-repeat")
	}
	for i := 2; i < len(all); i++ {
		symapi.Assert(count[i] >= 1, "join-no-gap")
	}
	symapi.Reach("end")
}

// VerifFlvJoinRace (C02/C01): the same for an FLV player joining while the FLV muxer
// publishes a tag: media tags after the replayed key frame arrive once each, in order,
// none missing.
func VerifFlvJoinRace() {
	symapi.Deterministic(true)
	s := verifStream("/a")
	s.flvCache = cache.NewFlvCache(true)
	mk := func(ts uint32, b0, b1 byte) *flv.Tag {
		return &flv.Tag{TagType: flv.TagTypeVideo, Timestamp: ts, Data: []byte{b0, b1, 0, 0, 0}}
	}
	key, p1, p2 := mk(1000, 0x17, 1), mk(1040, 0x27, 1), mk(1080, 0x27, 1)
	all := []*flv.Tag{key, p1, p2}
	s.WriteFlvTag(key)
	s.WriteFlvTag(p1)
	symapi.Deterministic(false)
	rec := &verifConsumer{}
	symapi.Go(func() { s.WriteFlvTag(p2) }) // the muxer's next tag
	cid := s.StartConsume(rec, FLVPacket, "late flv joiner")
	symapi.Quiesce()
	c := verifConsumption(s, cid)
	var d []queue.Elem
	for _, p := range rec.got {
		d = append(d, p)
	}
	if c != nil {
		d = append(d, c.recvQueue.Queue().Elems()...)
	}
	count := make([]int, len(all))
	prev := -1
	for _, e := range d {
		t, ok := e.(*flv.Tag)
		symapi.Assert(ok, "flv-join-only-tags")
		i := -1
		for k, p := range all {
			if t == p || (t.Timestamp == p.Timestamp && len(t.Data) == len(p.Data) && t.Data[0] == p.Data[0]) {
				i = k
			}
		}
		symapi.Assert(i >= 0, "flv-join-only-stream-tags")
		count[i]++
		symapi.Assert(i >= prev, "flv-join-never-goes-backwards")
		prev = i
	}
	for i := range all {
		symapi.Assert(count[i] == 1, "flv-join-each-tag-exactly-once")
	}
	symapi.Reach("end")
}

// VerifConcurrentJoins (C01/C04): two consumers attaching at the same time get different
// ids, are both registered, and both receive the next packet.
func VerifConcurrentJoins() {
	s := verifStream("/a")
	r1, r2 := &verifConsumer{}, &verifConsumer{}
	var c1, c2 CID
	symapi.Go(func() { c1 = s.StartConsumeNoGopCache(r1, RTPPacket, "one") })
	c2 = s.StartConsumeNoGopCache(r2, RTPPacket, "two")
	symapi.Quiesce()
	symapi.Assert(c1 != c2, "concurrent-joiners-get-different-ids")
	symapi.Assert(s.ConsumerCount() == 2, "both-joiners-registered")
	p := &rtp.Packet{Channel: rtp.ChannelVideo, Data: []byte{0x41, 1, 2}}
	s.WriteRtpPacket(p)
	symapi.Quiesce()
	for _, cid := range []CID{c1, c2} {
		c := verifConsumption(s, cid)
		symapi.Assert(c != nil, "joiner-in-the-list")
	}
	got := func(r *verifConsumer, cid CID) int {
		n := len(r.got)
		if c := verifConsumption(s, cid); c != nil {
			n += c.recvQueue.Len()
		}
		return n
	}
	symapi.Assert(got(r1, c1) == 1 && got(r2, c2) == 1, "both-joiners-receive-the-packet-once")
	symapi.Reach("end")
}
