package cache

import (
	"github.com/cnotch/ipchub/av/format/flv"
	"github.com/cnotch/ipchub/av/format/rtp"
	"github.com/cnotch/ipchub/zzverif/symapi"
)

// C07: arbitrary payload bytes never panic the RTP caches (publisher path).
func VerifH264CacheNoPanic() {
	N := symapi.Param("N", 8)
	n := symapi.IntRange("n", 0, N)
	payload := symapi.Bytes("p", n)
	c := NewH264Cache(symapi.Bool("gop"))
	pk := &rtp.Packet{Channel: byte(symapi.IntRange("ch", 0, 3)), Data: payload}
	c.CachePack(pk)
	// state not poisoned: a following well-formed IDR single NAL is classified as key frame
	good := &rtp.Packet{Channel: rtp.ChannelVideo, Data: []byte{0x65, 0x88, 0x84, 0x00}}
	symapi.Assert(c.CachePack(good), "idr-after-garbage-is-keyframe")
	symapi.Reach("end")
}

func VerifHevcCacheNoPanic() {
	N := symapi.Param("N", 8)
	n := symapi.IntRange("n", 0, N)
	payload := symapi.Bytes("p", n)
	c := NewHevcCache(symapi.Bool("gop"))
	pk := &rtp.Packet{Channel: byte(symapi.IntRange("ch", 0, 3)), Data: payload}
	c.CachePack(pk)
	good := &rtp.Packet{Channel: rtp.ChannelVideo, Data: []byte{19 << 1, 0x01, 0xaf, 0x00}}
	symapi.Assert(c.CachePack(good), "idr-after-garbage-is-keyframe")
	symapi.Reach("end")
}

func VerifFlvCacheNoPanic() {
	N := symapi.Param("N", 8)
	n := symapi.IntRange("n", 0, N)
	data := symapi.Bytes("d", n)
	c := NewFlvCache(symapi.Bool("gop"))
	tag := &flv.Tag{TagType: symapi.Byte("type"), Timestamp: symapi.Uint32("ts"), Data: data}
	c.CachePack(tag)
	symapi.Reach("end")
}
