package cache

import (
	"github.com/cnotch/ipchub/av/format/flv"
	"github.com/cnotch/ipchub/av/format/rtp"
	"github.com/cnotch/ipchub/zzverif/symapi"
	"github.com/cnotch/queue"
)

// verifH264Packet builds a well-formed video packet of a symbolic kind and returns the
// reference classification of what it carries.
type verifClass struct {
	sps, pps, key bool
}

func verifNalClass(t byte, c *verifClass) {
	switch t & 0x1f {
	case 7:
		c.sps = true
	case 8:
		c.pps = true
	case 5:
		c.key = true
	}
}

func verifH264Packet(name string) (*rtp.Packet, verifClass) {
	var c verifClass
	var data []byte
	switch symapi.Choose(name+".kind", 4) {
	case 0: // single NAL
		b := symapi.Bytes(name+".nal", 3)
		symapi.Assume(b[0]&0x1f >= 1 && b[0]&0x1f <= 23)
		verifNalClass(b[0], &c)
		data = b
	case 1: // STAP-A with two units of one byte each
		u := symapi.Bytes(name+".units", 2)
		symapi.Assume(u[0]&0x1f >= 1 && u[0]&0x1f <= 23 && u[1]&0x1f >= 1 && u[1]&0x1f <= 23)
		verifNalClass(u[0], &c)
		verifNalClass(u[1], &c)
		data = []byte{24, 0, 1, u[0], 0, 1, u[1]}
	case 2: // FU-A start fragment
		h := symapi.Byte(name + ".fuh")
		symapi.Assume(h&0x80 != 0 && h&0x1f >= 1 && h&0x1f <= 23)
		verifNalClass(h, &c)
		data = []byte{28, h, 0xaa}
	case 3: // FU-A continuation
		h := symapi.Byte(name + ".fuh")
		symapi.Assume(h&0x80 == 0)
		data = []byte{28, h, 0xbb}
	}
	return &rtp.Packet{Channel: rtp.ChannelVideo, Data: data}, c
}

// VerifH264JoinReplay: after any K packets, a joiner's replay is: latest SPS-bearing
// packet, latest PPS-bearing packet (each packet at most once), then - with GOP caching -
// every media packet from the start of the most recent key frame on; nothing older.
func VerifH264JoinReplay() {
	K := symapi.Param("K", 3)
	gop := symapi.Bool("cacheGop")
	c := NewH264Cache(gop)
	var pkts []*rtp.Packet
	var cls []verifClass
	k := symapi.IntRange("k", 0, K)
	for i := 0; i < k; i++ {
		p, cl := verifH264Packet("p" + string(rune('0'+i)))
		pkts = append(pkts, p)
		cls = append(cls, cl)
		got := c.CachePack(p)
		symapi.Assert(got == cl.key, "keyframe-flag-iff-packet-starts-a-key-frame")
	}
	q := queue.NewSyncQueue()
	c.PushTo(q)
	replay := q.Queue().Elems()

	// reference (DESIGN 4/C02): latest SPS-bearing packet, latest PPS-bearing packet (once if
	// it is the same packet), then with GOP caching every packet from the most recent key
	// frame start on that is not a parameter-set-only packet and was not already sent.
	lastSps, lastPps, lastKey := -1, -1, -1
	for i := range pkts {
		if cls[i].sps {
			lastSps = i
		}
		if cls[i].pps {
			lastPps = i
		}
		if cls[i].key {
			lastKey = i
		}
	}
	var want []int
	if lastSps >= 0 {
		want = append(want, lastSps)
	}
	if lastPps >= 0 && lastPps != lastSps {
		want = append(want, lastPps)
	}
	if gop && lastKey >= 0 {
		for i := lastKey; i < len(pkts); i++ {
			if i == lastSps || i == lastPps {
				continue
			}
			if cls[i].key || (!cls[i].sps && !cls[i].pps) {
				want = append(want, i)
			}
		}
	}
	symapi.Assert(len(replay) == len(want), "replay-length-equals-reference")
	for i := 0; i < len(want) && i < len(replay); i++ {
		symapi.Assert(replay[i] == queue.Elem(pkts[want[i]]), "replay-equals-reference")
	}
	symapi.Reach("end")
}

// VerifFlvJoinReplay: FLV cache: metadata / sequence headers are replayed as copies stamped
// with the first GOP tag's timestamp; originals untouched; GOP from the last key frame.
func VerifFlvJoinReplay() {
	K := symapi.Param("K", 3)
	gop := symapi.Bool("cacheGop")
	c := NewFlvCache(gop)
	meta := &flv.Tag{TagType: flv.TagTypeAmf0Data, Timestamp: symapi.Uint32("tmeta"), Data: []byte{2, 0, 10, 'o', 'n', 'M', 'e', 't', 'a', 'D', 'a', 't', 'a'}}
	vsh := &flv.Tag{TagType: flv.TagTypeVideo, Timestamp: symapi.Uint32("tvsh"), Data: []byte{0x17, 0, 0, 0, 0, 1}}
	// the AAC sequence header's first byte: SoundFormat 10 with any rate / size / channel bits
	// (the packetizer writes 0xA6, 0xAE ... for mono or low-rate AAC)
	ashFlags := 0xa0 | symapi.Byte("aacRateSizeType")&0x0f
	ash := &flv.Tag{TagType: flv.TagTypeAudio, Timestamp: symapi.Uint32("tash"), Data: []byte{ashFlags, 0, 0x12, 0x10}}
	symapi.Assert(!c.CachePack(meta) && !c.CachePack(vsh) && !c.CachePack(ash), "headers-are-not-key-frames")
	k := symapi.IntRange("k", 0, K)
	var tags []*flv.Tag
	var keys []bool
	for i := 0; i < k; i++ {
		b0 := symapi.Byte("b0" + string(rune('0'+i)))
		audio := symapi.Bool("audio" + string(rune('0'+i)))
		var t *flv.Tag
		key := false
		if audio {
			t = &flv.Tag{TagType: flv.TagTypeAudio, Data: []byte{0xaf, 1, b0}}
		} else {
			symapi.Assume(b0&0x0f == 7 && (b0>>4 == 1 || b0>>4 == 2))
			t = &flv.Tag{TagType: flv.TagTypeVideo, Data: []byte{b0, 1, 0, 0, 0}}
			key = b0>>4 == 1
		}
		t.Timestamp = symapi.Uint32("ts" + string(rune('0'+i)))
		tags = append(tags, t)
		keys = append(keys, key)
		symapi.Assert(c.CachePack(t) == key, "keyframe-flag")
	}
	tm, tv, ta := meta.Timestamp, vsh.Timestamp, ash.Timestamp
	q := queue.NewSyncQueue()
	c.PushTo(q)
	replay := q.Queue().Elems()
	lastKey := -1
	for i := range tags {
		if keys[i] {
			lastKey = i
		}
	}
	nGop := 0
	first := uint32(0)
	if gop && lastKey >= 0 {
		nGop = len(tags) - lastKey
		first = tags[lastKey].Timestamp
	}
	symapi.Assert(len(replay) == 3+nGop, "replay-length")
	if len(replay) >= 3 {
		m, v, a := replay[0].(*flv.Tag), replay[1].(*flv.Tag), replay[2].(*flv.Tag)
		symapi.Assert(m != meta && v != vsh && a != ash, "headers-are-copies")
		symapi.Assert(m.TagType == flv.TagTypeAmf0Data && v.TagType == flv.TagTypeVideo && a.TagType == flv.TagTypeAudio, "header-order-metadata-video-audio")
		symapi.Assert(m.Timestamp == first && v.Timestamp == first && a.Timestamp == first, "headers-stamped-with-first-replayed-tag")
		symapi.Assert(len(m.Data) == len(meta.Data) && len(v.Data) == 6 && v.Data[1] == 0 && a.Data[1] == 0, "header-bodies-kept")
	}
	symapi.Assert(meta.Timestamp == tm && vsh.Timestamp == tv && ash.Timestamp == ta, "cached-originals-untouched")
	for i := 0; i < nGop && 3+i < len(replay); i++ {
		symapi.Assert(replay[3+i] == queue.Elem(tags[lastKey+i]), "gop-from-last-key-frame-in-order")
	}
	symapi.Reach("end")
}

func VerifJoinReplayTwin() {
	c := NewH264Cache(true)
	idr := &rtp.Packet{Channel: rtp.ChannelVideo, Data: []byte{0x65, 1, 2}}
	p := &rtp.Packet{Channel: rtp.ChannelVideo, Data: []byte{0x41, 1, 2}}
	c.CachePack(idr)
	c.CachePack(p)
	q := queue.NewSyncQueue()
	c.PushTo(q)
	symapi.Assert(q.Queue().Len() == 1, "twin-gop-holds-only-the-key-frame")
}

// ---- H.265 ----

type verifClass265 struct{ vps, sps, pps, key bool }

func verifNalClass265(b0 byte, c *verifClass265) {
	t := (b0 >> 1) & 0x3f
	switch {
	case t >= 16 && t <= 21:
		c.key = true
	case t == 32:
		c.vps = true
	case t == 33:
		c.sps = true
	case t == 34:
		c.pps = true
	}
}

func verifHevcPacket(name string) (*rtp.Packet, verifClass265) {
	var c verifClass265
	var data []byte
	switch symapi.Choose(name+".kind", 3) {
	case 0: // single NAL
		b := symapi.Bytes(name+".nal", 3)
		symapi.Assume((b[0]>>1)&0x3f <= 47)
		verifNalClass265(b[0], &c)
		data = b
	case 1: // AP with two units of two bytes each
		u := symapi.Bytes(name+".units", 2)
		symapi.Assume((u[0]>>1)&0x3f <= 47 && (u[1]>>1)&0x3f <= 47)
		verifNalClass265(u[0], &c)
		verifNalClass265(u[1], &c)
		data = []byte{48 << 1, 1, 0, 2, u[0], 1, 0, 2, u[1], 1}
	case 2: // FU
		h := symapi.Byte(name + ".fuh")
		if h&0x80 != 0 {
			verifNalClass265((h&0x3f)<<1, &c)
		}
		data = []byte{49 << 1, 1, h, 0xaa}
	}
	return &rtp.Packet{Channel: rtp.ChannelVideo, Data: data}, c
}

func VerifHevcJoinReplay() {
	K := symapi.Param("K", 3)
	gop := symapi.Bool("cacheGop")
	c := NewHevcCache(gop)
	var pkts []*rtp.Packet
	var cls []verifClass265
	k := symapi.IntRange("k", 0, K)
	for i := 0; i < k; i++ {
		p, cl := verifHevcPacket("p" + string(rune('0'+i)))
		pkts = append(pkts, p)
		cls = append(cls, cl)
		symapi.Assert(c.CachePack(p) == cl.key, "keyframe-flag-iff-packet-starts-a-key-frame")
	}
	q := queue.NewSyncQueue()
	c.PushTo(q)
	replay := q.Queue().Elems()
	lv, ls, lp, lk := -1, -1, -1, -1
	for i := range pkts {
		if cls[i].vps {
			lv = i
		}
		if cls[i].sps {
			ls = i
		}
		if cls[i].pps {
			lp = i
		}
		if cls[i].key {
			lk = i
		}
	}
	var want []int
	if lv >= 0 {
		want = append(want, lv)
	}
	if ls >= 0 && ls != lv {
		want = append(want, ls)
	}
	if lp >= 0 && lp != lv && lp != ls {
		want = append(want, lp)
	}
	if gop && lk >= 0 {
		for i := lk; i < len(pkts); i++ {
			if i == lv || i == ls || i == lp {
				continue
			}
			if cls[i].key || (!cls[i].vps && !cls[i].sps && !cls[i].pps) {
				want = append(want, i)
			}
		}
	}
	symapi.Assert(len(replay) == len(want), "replay-length-equals-reference")
	for i := 0; i < len(want) && i < len(replay); i++ {
		symapi.Assert(replay[i] == queue.Elem(pkts[want[i]]), "replay-equals-reference")
	}
	symapi.Reach("end")
}
