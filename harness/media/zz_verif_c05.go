package media

import (
	"github.com/cnotch/ipchub/provider/route"
	"sync/atomic"
	"time"

	"github.com/cnotch/ipchub/utils"
	"github.com/cnotch/ipchub/zzverif/symapi"
)

// scheduler.PostFunc is replaced by this recorder in the executor (checks/C05.json);
// natively the real scheduler runs (the task fires after five minutes, i.e. never).
var verifPosted []func()

func verifPostFuncStub(schedule interface{}, f func(), tag interface{}) (interface{}, error) {
	verifPosted = append(verifPosted, f)
	return nil, nil
}

func verifClosed(s *Stream) bool { return atomic.LoadInt32(&s.status) != StreamOK }

// VerifRegistryHistory: every history of K operations from the empty registry against a
// sequential reference model.
func VerifRegistryHistory() {
	K := symapi.Param("K", 3)
	ss := []*Stream{verifStream("/a"), verifStream("/a"), verifStream("/b")}
	cons := []*verifConsumer{{}, {}, {}}
	hasCons := []bool{false, false, false}
	for i := range ss {
		if symapi.Bool("consumer" + string(rune('0'+i))) {
			ss[i].StartConsumeNoGopCache(cons[i], RTPPacket, "c")
			hasCons[i] = true
		}
	}
	holder := map[string]int{} // path -> stream index
	closed := []bool{false, false, false}
	retired := []bool{false, false, false} // replaced, waiting for the idle task
	for k := 0; k < K; k++ {
		op := symapi.Choose("op"+string(rune('0'+k)), 3)
		i := symapi.Choose("s"+string(rune('0'+k)), 3)
		s := ss[i]
		posted := len(verifPosted)
		switch op {
		case 0: // Regist
			if closed[i] {
				continue // a closed stream is never registered again by any caller
			}
			Regist(s)
			old, had := holder[s.path]
			holder[s.path] = i
			if had && old != i {
				if hasCons[old] && !closed[old] {
					retired[old] = true
					symapi.Assert(len(verifPosted) == posted+1, "replaced-stream-with-consumers-gets-close-task")
					symapi.Assert(!verifClosed(ss[old]), "replaced-stream-with-consumers-not-closed-at-once")
				} else {
					closed[old] = true
					symapi.Assert(verifClosed(ss[old]), "replaced-stream-without-consumers-closed-at-once")
				}
			}
		case 1: // Unregist
			Unregist(s)
			if h, ok := holder[s.path]; ok && h == i {
				delete(holder, s.path)
			}
			closed[i] = true
			symapi.Assert(verifClosed(s), "unregistered-stream-closed")
		case 2: // the idle task fires for this stream
			task := &runZeroConsumersClose{s: s, d: 5 * time.Minute, closedStats: StreamNoConsumer}
			task.run()
			if !hasCons[i] || closed[i] {
				if h, ok := holder[s.path]; ok && h == i {
					delete(holder, s.path)
				}
				closed[i] = true
				symapi.Assert(verifClosed(s), "idle-stream-closed")
			} else {
				symapi.Assert(!verifClosed(s), "stream-with-consumer-not-closed-for-idleness")
			}
		}
		// lookups
		for _, p := range []string{"/a", "/b"} {
			got := Get(p)
			h, ok := holder[p]
			if !ok {
				symapi.Assert(got == nil, "no-stream-on-unregistered-path")
			} else if closed[h] {
				symapi.Assert(got == nil, "closed-stream-never-returned-by-lookup")
			} else {
				symapi.Assert(got == ss[h], "lookup-returns-most-recently-registered")
			}
		}
		sc, cc := Count()
		wantS, wantC := 0, 0
		for _, h := range holder {
			if !closed[h] {
				wantS++
				if hasCons[h] {
					wantC++
				}
			}
		}
		symapi.Assert(sc == wantS && cc == wantC, "counts-match-live-streams")
	}
	// closing a stream releases its consumer
	for i := range ss {
		if closed[i] && hasCons[i] {
			symapi.Assert(ss[i].ConsumerCount() == 0, "closed-stream-has-no-consumers")
		}
	}
	symapi.Reach("end")
}

// VerifIdleClose: the idle task closes a stream only when it has no consumer of any
// protocol and no recent HLS access; it never panics.
type verifHls struct{ last time.Time }

func (h *verifHls) M3u8(token string) ([]byte, error) { return nil, nil }
func (h *verifHls) LastAccessTime() time.Time         { return h.last }

func VerifIdleClose() {
	s := verifStream("/a")
	rtpC := symapi.Bool("rtpConsumer")
	flvC := symapi.Bool("flvConsumer")
	if rtpC {
		s.StartConsumeNoGopCache(&verifConsumer{}, RTPPacket, "r")
	}
	if flvC {
		s.StartConsumeNoGopCache(&verifConsumer{}, FLVPacket, "f")
	}
	task := &runZeroConsumersClose{s: s, d: 5 * time.Minute, closedStats: StreamNoConsumer}
	task.run()
	if rtpC || flvC {
		symapi.Assert(!verifClosed(s), "stream-with-any-consumer-not-closed-for-idleness")
	} else {
		// no HLS on this stream (Hlsable is nil): idle => closed
		symapi.Assert(verifClosed(s) && task.closed, "idle-stream-without-hls-closed")
	}
	symapi.Reach("end")
}

// VerifCanonicalPath: idempotent, case-insensitive, rooted.
func VerifCanonicalPath() {
	N := symapi.Param("N", 4)
	p := symapi.String("p", symapi.IntRange("n", 0, N))
	for i := 0; i < len(p); i++ {
		symapi.Assume(symapi.OneOf(p[i], "aB/."))
	}
	// blanks only around the path (blanks inside a segment are not a defined spelling)
	if symapi.Bool("lead") {
		p = " " + p
	}
	if symapi.Bool("trail") {
		p = p + " "
	}
	c := utils.CanonicalPath(p)
	symapi.Assert(len(c) >= 1 && c[0] == '/', "canonical-path-is-rooted")
	symapi.Assert(utils.CanonicalPath(c) == c, "canonicalisation-is-idempotent")
	for i := 0; i < len(c); i++ {
		symapi.Assert(!(c[i] >= 'A' && c[i] <= 'Z'), "canonical-path-is-lower-case")
	}
	// equal to an independent reference: lower-cased, rooted, '.' and empty segments dropped,
	// '..' resolved, the trailing '/' of a directory spelling kept
	symapi.Assert(c == verifCanonRef(p), "canonical-path-equals-reference")
	// the registry resolves both spellings to the same stream
	s := verifStream(c)
	Regist(s)
	symapi.Assert(Get(p) == s, "lookup-by-any-spelling-finds-the-stream")
	symapi.Reach("end")
}

func verifCanonRef(p string) string {
	lo, hi := 0, len(p)
	for lo < hi && p[lo] == ' ' {
		lo++
	}
	for hi > lo && p[hi-1] == ' ' {
		hi--
	}
	var segs [][]byte
	var cur []byte
	flush := func() {
		switch {
		case len(cur) == 0 || (len(cur) == 1 && cur[0] == '.'):
		case len(cur) == 2 && cur[0] == '.' && cur[1] == '.':
			if len(segs) > 0 {
				segs = segs[:len(segs)-1]
			}
		default:
			segs = append(segs, cur)
		}
		cur = nil
	}
	for i := lo; i < hi; i++ {
		c := p[i]
		if c == '/' {
			flush()
			continue
		}
		if c >= 'A' && c <= 'Z' {
			c += 32
		}
		cur = append(cur, c)
	}
	flush()
	out := []byte{'/'}
	for i, sg := range segs {
		if i > 0 {
			out = append(out, '/')
		}
		out = append(out, sg...)
	}
	if hi > lo && p[hi-1] == '/' && len(segs) > 0 {
		out = append(out, '/')
	}
	return string(out)
}

func VerifRegistryTwin() {
	a, b := verifStream("/a"), verifStream("/a")
	Regist(a)
	Regist(b)
	Unregist(a)
	symapi.Assert(Get("/a") == nil, "twin-unregistering-retired-stream-removes-successor")
}

// VerifLookupVsUnregist: a lookup racing with Unregist never returns a stream that is
// already closed (every interleaving).
func VerifLookupVsUnregist() {
	s := verifStream("/a")
	Regist(s)
	how := symapi.Choose("how", 2)
	symapi.Go(func() {
		if how == 0 {
			Unregist(s)
		} else {
			(&runZeroConsumersClose{s: s, d: 5 * time.Minute, closedStats: StreamNoConsumer}).run()
		}
	})
	g := Get("/A") // another spelling of the same path
	if g != nil {
		symapi.Assert(g.status == StreamOK, "lookup-never-returns-a-closed-stream")
	}
	sc, _ := Count()
	_ = sc
	symapi.Quiesce()
	symapi.Assert(Get("/a") == nil && s.status != StreamOK, "stream-gone-after-unregist")
	symapi.Reach("end")
}

const verifSdpH264 = "v=0\r\no=- 0 0 IN IP4 127.0.0.1\r\ns=x\r\nc=IN IP4 0.0.0.0\r\nt=0 0\r\n" +
	"m=video 0 RTP/AVP 96\r\na=rtpmap:96 H264/90000\r\na=control:trackID=0\r\n" +
	"m=audio 0 RTP/AVP 97\r\na=rtpmap:97 MPEG4-GENERIC/44100/2\r\na=fmtp:97 profile-level-id=1;mode=AAC-hbr;sizelength=13;indexlength=3;indexdeltalength=3;config=1210\r\na=control:trackID=1\r\n"

// VerifIdleCloseHls: a stream with HLS output and no RTP/FLV consumer is closed for idleness
// only when the last HLS access is at least the idle period ago.
func VerifIdleCloseHls() {
	s := NewStream("/live/h", verifSdpH264)
	symapi.Assert(s.Hlsable() != nil, "h264-stream-has-hls")
	Regist(s)
	s.Hlsable().M3u8("") // an HLS player fetches the playlist (too early to get one, but it counts as access)
	stale := symapi.Bool("accessIsOld")
	if stale {
		symapi.AdvanceClock(6 * 60)
	} else {
		symapi.AdvanceClock(symapi.IntRange("secondsAgo", 0, 3) * 60)
	}
	task := &runZeroConsumersClose{s: s, d: 5 * time.Minute, closedStats: StreamNoConsumer}
	task.run()
	if stale {
		symapi.Assert(s.status != StreamOK && Get("/live/h") == nil, "idle-stream-with-old-hls-access-closed")
		symapi.Reach("stale")
	} else {
		symapi.Assert(s.status == StreamOK && Get("/live/h") == s, "stream-with-recent-hls-access-not-closed")
		symapi.Reach("recent")
	}
}

// verifPullFactory is an on-demand pull source: Create registers the pulled stream itself (as
// the real factory's play loop does) and then, depending on the scenario, the camera drops
// at once (the play loop unregisters and closes the stream) or a publisher takes the path.
type verifPullFactory struct {
	created   []*Stream
	scenario  int
	publisher *Stream
}

func (f *verifPullFactory) Can(remoteURL string) bool { return true }
func (f *verifPullFactory) Create(localPath, remoteURL string) (*Stream, error) {
	s := verifStream(localPath)
	f.created = append(f.created, s)
	Regist(s)
	switch f.scenario {
	case 1: // the camera disconnects right after the handshake
		Unregist(s)
	case 2: // a publisher registers on the path before Create returns
		f.publisher = verifStream(localPath)
		Regist(f.publisher)
	}
	return s, nil
}

// VerifGetOrCreate (C05 / C20): a lookup that falls through to the route table and the pull
// factory leaves the registry consistent whatever happens to the pulled stream meanwhile: a
// closed stream is never resolvable, a publisher that took the path stays registered, and a
// second request finds the live pulled stream instead of pulling again.
func VerifGetOrCreate() {
	f := &verifPullFactory{scenario: symapi.Choose("scenario", 3)}
	psFactories = []PullStreamFactory{f}
	route.Save(&route.Route{Pattern: "/pull/a", URL: "fake://cam/a", KeepAlive: symapi.Bool("keepAlive")})
	s := GetOrCreate("/pull/a")
	symapi.Assert(len(f.created) == 1, "one-pull-for-the-first-request")
	cur := Get("/pull/a")
	symapi.Assert(cur == nil || !verifClosed(cur), "closed-stream-never-resolvable")
	switch f.scenario {
	case 0:
		symapi.Assert(s == f.created[0] && cur == s, "pulled-stream-registered-under-the-requested-path")
		symapi.Assert(GetOrCreate("/pull/a") == s && len(f.created) == 1, "second-request-reuses-the-live-stream")
	case 1:
		symapi.Assert(cur == nil, "nothing-stays-registered-after-the-camera-dropped")
		sc, _ := Count()
		symapi.Assert(sc == 0, "stream-count-matches")
	case 2:
		symapi.Assert(cur == f.publisher && !verifClosed(f.publisher), "publisher-that-took-the-path-stays-registered-and-open")
	}
	symapi.Reach("end")
}

// VerifGetOrCreateUnrouted (C17 / C05): only the route that the table resolves for the
// requested path is pulled: a path one segment below an exact route, or the directory
// spelling of it, resolves to nothing and starts no pull.
func VerifGetOrCreateUnrouted() {
	f := &verifPullFactory{}
	psFactories = []PullStreamFactory{f}
	route.Save(&route.Route{Pattern: "/pull/a", URL: "fake://cam/a"})
	route.Save(&route.Route{Pattern: "/dir/", URL: "fake://cam/d"})
	req := []string{"/pull/a/x", "/pull/a/", "/pull", "/dir/", "/dir/s/", "/other"}[symapi.Choose("request", 6)]
	symapi.Assert(route.Match(req) == nil, "no-route-for-this-request")
	s := GetOrCreate(req)
	symapi.Assert(s == nil && len(f.created) == 0, "unrouted-request-pulls-nothing")
	sc, _ := Count()
	symapi.Assert(sc == 0, "nothing-registered")
	symapi.Reach("end")
}

// VerifRegistRace (C05): two publishers register on one path at the same time. Afterwards the
// path resolves to exactly one of them and the other one has been retired (closed, as it has
// no consumers) - for every interleaving.
func VerifRegistRace() {
	a, b := verifStream("/a"), verifStream("/a")
	symapi.Go(func() { Regist(a) })
	Regist(b)
	symapi.Quiesce()
	cur := Get("/a")
	symapi.Assert(cur == a || cur == b, "path-resolves-to-one-of-the-publishers")
	other := a
	if cur == a {
		other = b
	}
	symapi.Assert(!verifClosed(cur), "winner-is-live")
	symapi.Assert(verifClosed(other), "loser-is-retired")
	sc, _ := Count()
	symapi.Assert(sc == 1, "one-stream-counted")
	symapi.Reach("end")
}

// VerifPullRace (C05 / C20): two first requests for one routed path at the same time: both
// may pull, but they end with one registered live stream and the other pulled stream retired.
func VerifPullRace() {
	f := &verifPullFactory{}
	psFactories = []PullStreamFactory{f}
	route.Save(&route.Route{Pattern: "/pull/a", URL: "fake://cam/a", KeepAlive: true})
	var s1, s2 *Stream
	symapi.Go(func() { s1 = GetOrCreate("/pull/a") })
	s2 = GetOrCreate("/pull/a")
	symapi.Quiesce()
	symapi.Assert(s1 != nil && s2 != nil, "both-requesters-get-a-stream")
	cur := Get("/pull/a")
	symapi.Assert(cur != nil && !verifClosed(cur), "one-live-stream-registered")
	live := 0
	for _, s := range f.created {
		if !verifClosed(s) {
			live++
			symapi.Assert(s == cur, "only-the-registered-stream-stays-live")
		}
	}
	symapi.Assert(live == 1, "exactly-one-pulled-stream-survives")
	symapi.Reach("end")
}

// VerifInfosPaging (C05): the paged stream listing: for any set of registered streams, any
// page token (a listed path, the path of a stream that has gone since the previous page,
// anything else) and page size, the page is exactly the first `pagesize` registered paths
// greater than the token, in order, and the total is the number of registered streams - so
// walking the pages lists every live stream once, also when the token's stream has left.
func VerifInfosPaging() {
	paths := []string{"/seed/a", "/seed/b", "/seed/c", "/seed/d"}
	var have []string
	for i, p := range paths {
		if symapi.Bool("registered" + string(rune('0'+i))) {
			Regist(verifStream(p))
			have = append(have, p)
		}
	}
	token := []string{"", "/seed/a", "/seed/b", "/seed/bb", "/seed/c", "/seed/d", "/seed/e", "/"}[symapi.Choose("token", 8)]
	size := symapi.IntRange("pagesize", 1, 3)
	total, page := Infos(token, size, false)
	symapi.Assert(total == len(have), "total-is-the-number-of-registered-streams")
	var want []string
	for _, p := range have {
		if p > token && len(want) < size {
			want = append(want, p)
		}
	}
	symapi.Assert(len(page) == len(want), "page-has-the-next-registered-streams")
	for i := 0; i < len(want) && i < len(page); i++ {
		symapi.Assert(page[i].Path == want[i], "page-lists-the-streams-after-the-token-in-order")
	}
	symapi.Reach("end")
}
