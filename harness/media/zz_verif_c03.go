package media

import (
	"github.com/cnotch/ipchub/zzverif/symapi"
)

// VerifLostWakeup: a consumer is stopped while its delivery goroutine runs; in every
// interleaving the goroutine terminates and the consumer is closed exactly once.
func VerifLostWakeup() {
	s := verifStream("/a")
	rec := &verifConsumer{}
	cid := s.StartConsumeNoGopCache(rec, RTPPacket, "x") // starts the delivery goroutine
	if symapi.Bool("publish") {
		s.WriteRtpPacket(verifPack("p", 1))
	}
	switch symapi.Choose("how", 2) {
	case 0:
		s.StopConsume(cid)
	case 1:
		s.close(StreamClosed)
	}
	left := symapi.Quiesce()
	symapi.Assert(left == 0, "no-delivery-goroutine-remains")
	symapi.Assert(rec.closed == 1, "consumer-closed-exactly-once")
	symapi.Assert(s.ConsumerCount() == 0, "consumer-count-zero")
	symapi.Reach("end")
}

// VerifAttachVsClose: a consumer attaching while the stream is being closed is closed too.
func VerifAttachVsClose() {
	s := verifStream("/a")
	rec := &verifConsumer{}
	symapi.Go(func() { s.close(StreamClosed) })
	s.StartConsumeNoGopCache(rec, RTPPacket, "x")
	left := symapi.Quiesce()
	symapi.Assert(left == 0, "no-goroutine-remains")
	symapi.Assert(rec.closed == 1, "attaching-consumer-closed-when-stream-ends")
	symapi.Assert(s.ConsumerCount() == 0, "consumer-count-zero")
	symapi.Reach("end")
}

// VerifStopVsClose: StopConsume racing with the close sweep never drives the count negative.
func VerifStopVsClose() {
	s := verifStream("/a")
	rec := &verifConsumer{}
	cid := s.StartConsumeNoGopCache(rec, RTPPacket, "x")
	symapi.Go(func() { s.StopConsume(cid) })
	s.close(StreamClosed)
	left := symapi.Quiesce()
	symapi.Assert(left == 0, "no-goroutine-remains")
	symapi.Assert(s.ConsumerCount() == 0, "consumer-count-zero-never-negative")
	symapi.Assert(rec.closed >= 1, "consumer-closed")
	symapi.Reach("end")
}

// VerifReleaseSeq (sequential): closing a stream closes each attached consumer exactly
// once; stopping one consumer closes only that one; attaching to a closed stream is refused
// or the consumer is closed at once.
func VerifReleaseSeq() {
	s := verifStream("/a")
	n := symapi.IntRange("n", 1, 3)
	var recs []*verifConsumer
	var cids []CID
	for i := 0; i < n; i++ {
		r := &verifConsumer{}
		recs = append(recs, r)
		t := RTPPacket
		if symapi.Bool("flv" + string(rune('0'+i))) {
			t = FLVPacket
		}
		cids = append(cids, s.StartConsumeNoGopCache(r, t, "x"))
	}
	symapi.Assert(s.ConsumerCount() == n, "count-equals-attached")
	k := symapi.IntRange("stop", 0, n-1)
	s.StopConsume(cids[k])
	// the delivery goroutine of k runs its exit path
	for i, sp := range verifSpawnedConsumptions(s, recs) {
		_ = i
		_ = sp
	}
	symapi.Assert(s.ConsumerCount() == n-1, "count-after-stop")
	s.close(StreamClosed)
	symapi.Assert(s.ConsumerCount() == 0, "count-zero-after-close")
	late := &verifConsumer{}
	s.StartConsumeNoGopCache(late, RTPPacket, "late")
	symapi.Assert(s.ConsumerCount() == 0 || late.closed == 1, "attach-after-close-is-released")
	symapi.Reach("end")
}

func verifSpawnedConsumptions(s *Stream, recs []*verifConsumer) []int { return nil }

// twin (C03): claims a stopped consumer is never closed - must be violated
func VerifReleaseTwin() {
	s := verifStream("/a")
	rec := &verifConsumer{}
	cid := s.StartConsumeNoGopCache(rec, RTPPacket, "x")
	c := verifConsumption(s, cid)
	s.StopConsume(cid)
	c.consume() // the delivery goroutine observes the stop and runs its exit path
	symapi.Assert(rec.closed == 0, "twin-stopped-consumer-not-closed")
}

// VerifReplacedStreamRelease: a stream that was replaced by a new publisher still releases
// its consumers when its own publisher goes away (Unregist) or when its idle task fires.
func VerifReplacedStreamRelease() {
	a, b := verifStream("/a"), verifStream("/a")
	rec := &verifConsumer{}
	Regist(a)
	cid := a.StartConsumeNoGopCache(rec, RTPPacket, "viewer of a")
	Regist(b) // a is retired but keeps serving its viewer
	symapi.Assert(Get("/a") == b && a.status == StreamOK && a.ConsumerCount() == 1, "retired-stream-keeps-its-consumers")
	if symapi.Bool("publisherLeaves") {
		Unregist(a)
	} else {
		a.StopConsume(cid)
		(&runZeroConsumersClose{s: a, d: 0, closedStats: StreamReplaced}).run()
	}
	symapi.Assert(a.status != StreamOK, "retired-stream-closed")
	symapi.Assert(a.ConsumerCount() == 0, "retired-stream-consumer-count-zero")
	c := verifConsumption(a, cid)
	symapi.Assert(c == nil, "viewer-detached")
	symapi.Assert(Get("/a") == b && b.status == StreamOK, "successor-untouched")
	symapi.Reach("end")
}
