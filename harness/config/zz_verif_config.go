package config

// VerifSetAuth installs a configuration with authentication switched on or off
// (verification harnesses only; the real InitConfig reads files and flags).
func VerifSetAuth(on bool) {
	globalC = &config{Auth: on, HlsFragment: 5, ListenAddr: ":554"}
}
