package bits

import "github.com/cnotch/ipchub/zzverif/symapi"

// refBit returns bit i (MSB first) of buf.
func refBit(buf []byte, i int) uint64 {
	return uint64(buf[i>>3]>>(7-uint(i&7))) & 1
}

// VerifBitsRead: Read(n) from an arbitrary bit offset equals the bit-by-bit reference.
func VerifBitsRead() {
	N := symapi.Param("N", 4)
	buf := symapi.Bytes("buf", N)
	off := symapi.IntRange("off", 0, N*8)
	n := symapi.IntRange("n", 0, 33)
	r := NewReader(buf)
	r.Skip(off)
	if off+n > N*8 && n > 0 && n <= 32 {
		// must panic, never return stale data
		panicked := false
		func() {
			defer func() {
				if recover() != nil {
					panicked = true
				}
			}()
			r.Read(n)
		}()
		symapi.Assert(panicked, "read-past-end-panics")
		symapi.Reach("oob")
		return
	}
	got := r.Read(n)
	var want uint64
	if n > 0 && n <= 32 {
		for i := 0; i < n; i++ {
			want = want<<1 | refBit(buf, off+i)
		}
		symapi.Assert(r.Offset() == off+n, "offset-advanced")
	} else {
		symapi.Assert(r.Offset() == off, "offset-unchanged")
	}
	symapi.Assert(uint64(got) == want, "read-equals-reference")
	symapi.Reach("end")
}

// VerifBitsReadTwin: deliberately wrong oracle (bit order reversed); must be violated.
func VerifBitsReadTwin() {
	buf := symapi.Bytes("buf", 2)
	r := NewReader(buf)
	got := r.Read(3)
	want := uint32(buf[0] & 7)
	symapi.Assert(got == want, "twin-wrong-bit-order")
	symapi.Reach("end")
}

// refUe decodes ue(v) (H.264 9.1) bit by bit starting at bit offset off; ok=false when
// the code does not fit in the buffer or has more than 32 leading zeros.
func refUe(buf []byte, off int) (val uint64, next int, ok bool) {
	total := len(buf) * 8
	k := 0
	for {
		if off >= total {
			return 0, 0, false
		}
		b := refBit(buf, off)
		off++
		if b == 1 {
			break
		}
		k++
		if k > 32 {
			return 0, 0, false
		}
	}
	if off+k > total {
		return 0, 0, false
	}
	var x uint64
	for i := 0; i < k; i++ {
		x = x<<1 | refBit(buf, off+i)
	}
	return (uint64(1)<<uint(k) - 1) + x, off + k, true
}

// VerifBitsUe: ReadUe equals ue(v) for every code with at most 31 leading zeros.
func VerifBitsUe() {
	N := symapi.Param("N", 3)
	buf := symapi.Bytes("buf", N)
	off := symapi.IntRange("off", 0, 7)
	want, next, ok := refUe(buf, off)
	symapi.Assume(ok && want < 1<<32-1)
	r := NewReader(buf)
	r.Skip(off)
	got := r.ReadUe()
	symapi.Assert(uint64(got) == want, "ue-value")
	symapi.Assert(r.Offset() == next, "ue-offset")
	symapi.Reach("end")
}

// VerifBitsSe: ReadSe equals se(v): codeNum k -> (-1)^(k+1) * ceil(k/2).
func VerifBitsSe() {
	N := symapi.Param("N", 3)
	buf := symapi.Bytes("buf", N)
	off := symapi.IntRange("off", 0, 7)
	k, next, ok := refUe(buf, off)
	symapi.Assume(ok && k < 1<<32-1)
	var want int64
	if k&1 == 1 {
		want = int64((k + 1) / 2)
	} else {
		want = -int64(k / 2)
	}
	r := NewReader(buf)
	r.Skip(off)
	got := r.ReadSe()
	symapi.Assert(int64(got) == want, "se-value")
	symapi.Assert(r.Offset() == next, "se-offset")
	symapi.Reach("end")
}

// VerifBitsUeWide: Exp-Golomb codes of every width up to 63 bits (0..31 leading zeros) in a
// buffer with plenty of data behind them (an SPS with HRD bit rates, offsets ...): the value
// is 2^lz - 1 + info and exactly 2*lz+1 bits are consumed, for symbolic info bits and a
// symbolic start offset.
func VerifBitsUeWide() {
	lz := symapi.Choose("leadingZeros", 32)
	info := symapi.Uint32("info")
	off := symapi.IntRange("off", 0, 7)
	buf := make([]byte, 16)
	set := func(pos int, b byte) { buf[pos/8] |= (b & 1) << uint(7-pos%8) }
	pos := off + lz
	set(pos, 1)
	pos++
	var val uint64
	for i := lz - 1; i >= 0; i-- {
		b := byte(info>>uint(i)) & 1
		set(pos, b)
		pos++
		val |= uint64(b) << uint(i)
	}
	for ; pos < 128; pos++ { // trailing data: more codes follow in a real parameter set
		set(pos, byte(pos)&1)
	}
	want := uint64(1)<<uint(lz) - 1 + val
	r := NewReader(buf)
	r.Skip(off)
	got := r.ReadUe()
	if lz < 32 && want < 1<<32-1 {
		symapi.Assert(uint64(got) == want, "ue-value")
	}
	symapi.Assert(r.Offset() == off+2*lz+1, "ue-consumes-2lz+1-bits")
	symapi.Reach("end")
}
