package bits

import "github.com/cnotch/ipchub/zzverif/symapi"

// refBit returns bit i (MSB first) of buf.
func refBit(buf []byte, i int) uint64 {
	return uint64(buf[i>>3]>>(7-uint(i&7))) & 1
}

// VerifBitsRead: Read(n) from an arbitrary bit offset equals the bit-by-bit reference.
func VerifBitsRead() {
	N := symapi.Param("N", 4)
	buf := symapi.Bytes("buf", N)
	off := symapi.IntRange("off", 0, N*8)
	n := symapi.IntRange("n", 0, 33)
	r := NewReader(buf)
	r.Skip(off)
	if off+n > N*8 && n > 0 && n <= 32 {
		// must panic, never return stale data
		panicked := false
		func() {
			defer func() {
				if recover() != nil {
					panicked = true
				}
			}()
			r.Read(n)
		}()
		symapi.Assert(panicked, "read-past-end-panics")
		symapi.Reach("oob")
		return
	}
	got := r.Read(n)
	var want uint64
	if n > 0 && n <= 32 {
		for i := 0; i < n; i++ {
			want = want<<1 | refBit(buf, off+i)
		}
		symapi.Assert(r.Offset() == off+n, "offset-advanced")
	} else {
		symapi.Assert(r.Offset() == off, "offset-unchanged")
	}
	symapi.Assert(uint64(got) == want, "read-equals-reference")
	symapi.Reach("end")
}

// VerifBitsReadTwin: deliberately wrong oracle (bit order reversed); must be violated.
func VerifBitsReadTwin() {
	buf := symapi.Bytes("buf", 2)
	r := NewReader(buf)
	got := r.Read(3)
	want := uint32(buf[0] & 7)
	symapi.Assert(got == want, "twin-wrong-bit-order")
	symapi.Reach("end")
}
