package utils

import (
	"github.com/cnotch/ipchub/internal/verifhook"
	"github.com/cnotch/ipchub/zzverif/symapi"
)

func verifBytesEq(a, b []byte) bool {
	if len(a) != len(b) {
		return false
	}
	for i := range a {
		if a[i] != b[i] {
			return false
		}
	}
	return true
}

type verifTable struct {
	Name string `json:"name"`
}

var verifCrashPoints = []string{"", "encodejson.opened", "encodejson.written", "encodejson.synced", "encodejson.closed", "encodejson.renamed"}

// VerifCrashFlush: if the process dies at any point of a flush, a restart finds either the
// complete previous file or the complete new one.
func VerifCrashFlush() {
	obj := []verifTable{{"admin"}, {"bob"}}
	ref := symapi.TempPath("ref.json")
	symapi.Assert(EncodeJSONFile(ref, obj) == nil, "reference-flush-ok")
	newc, ok := symapi.DurableFile(ref)
	symapi.Assert(ok && len(newc) > 0, "complete-flush-is-durable")

	path := symapi.TempPath("users.json")
	old := []byte("[{\"name\":\"previous-table\"}]")
	existed := symapi.Bool("previousFileExists")
	if existed {
		symapi.SetFile(path, old)
	} // else: the very first flush; the previous state is "no file", which a restart treats as an empty table

	verifhook.CrashAt = verifCrashPoints[symapi.Choose("crashAt", len(verifCrashPoints))]
	crashed := false
	func() {
		defer func() {
			if r := recover(); r != nil {
				if _, isCrash := r.(verifhook.CrashSignal); isCrash {
					crashed = true
					return
				}
				panic(r)
			}
		}()
		EncodeJSONFile(path, obj)
	}()
	verifhook.CrashAt = ""
	img, exists := symapi.DurableFile(path)
	if existed {
		symapi.Assert(exists, "file-still-exists-after-crash")
		symapi.Assert(verifBytesEq(img, old) || verifBytesEq(img, newc), "file-is-complete-old-or-complete-new-after-crash")
	} else {
		symapi.Assert(!exists || verifBytesEq(img, newc), "first-flush-leaves-no-file-or-the-complete-new-one")
	}
	if !crashed {
		symapi.Assert(exists && verifBytesEq(img, newc), "uninterrupted-flush-writes-new-table")
		symapi.Reach("completed")
	} else {
		symapi.Reach("crashed")
	}
}

// VerifEmulationPrevention: removal of emulation_prevention_three_byte (00 00 03 -> 00 00)
// equals the reference for every byte string.
func VerifEmulationPrevention() {
	N := symapi.Param("N", 6)
	n := symapi.IntRange("n", 0, N)
	in := symapi.Bytes("b", n)
	// keep away from the NAL separator handling (leading start codes), checked elsewhere
	if n > 0 {
		symapi.Assume(in[0] != 0)
	}
	orig := append([]byte(nil), in...)
	got := RemoveH264or5EmulationBytes(in)
	var want []byte
	for i := 0; i < len(orig); {
		if i+2 < len(orig) && orig[i] == 0 && orig[i+1] == 0 && orig[i+2] == 3 {
			want = append(want, 0, 0)
			i += 3
		} else {
			want = append(want, orig[i])
			i++
		}
	}
	symapi.Assert(len(got) == len(want), "epb-length")
	for i := 0; i < len(want) && i < len(got); i++ {
		symapi.Assert(got[i] == want[i], "epb-bytes")
	}
	symapi.Reach("end")
}
