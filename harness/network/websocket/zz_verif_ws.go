package websocket

import (
	"io"
	"net"
	"time"

	"github.com/cnotch/ipchub/zzverif/symapi"
)

// verifSocket is the gorilla connection as the wrapper sees it: it records message boundaries.
type verifSocket struct {
	msgs  [][]byte
	types []int
	cur   []byte
	open  bool
}

type verifMsgWriter struct{ s *verifSocket }

func (w verifMsgWriter) Write(p []byte) (int, error) {
	w.s.cur = append(w.s.cur, p...)
	return len(p), nil
}
func (w verifMsgWriter) Close() error {
	w.s.msgs = append(w.s.msgs, w.s.cur)
	w.s.cur = nil
	w.s.open = false
	return nil
}

func (s *verifSocket) NextReader() (int, io.Reader, error) { return 0, nil, io.EOF }
func (s *verifSocket) NextWriter(messageType int) (io.WriteCloser, error) {
	s.types = append(s.types, messageType)
	s.open = true
	return verifMsgWriter{s}, nil
}
func (s *verifSocket) Close() error                       { return nil }
func (s *verifSocket) LocalAddr() net.Addr                { return nil }
func (s *verifSocket) RemoteAddr() net.Addr               { return nil }
func (s *verifSocket) SetReadDeadline(t time.Time) error  { return nil }
func (s *verifSocket) SetWriteDeadline(t time.Time) error { return nil }
func (s *verifSocket) Subprotocol() string                { return "rtsp" }

// VerifOneMessagePerWrite (C13): the sessions hand a complete response or interleaved frame to
// Write in one call; the wrapper must send it as exactly one WebSocket message, whatever its
// size (classes up to a 65535-byte frame plus its prefix and beyond), on the binary and on the
// text transport.
func VerifOneMessagePerWrite() {
	s := &verifSocket{}
	var c Conn = newConn(s, "/live/a", "")
	if symapi.Bool("text") {
		c = c.TextTransport()
	}
	n := []int{0, 1, 125, 126, 4096, 32767, 32768, 32769, 65535, 65539, 100000}[symapi.Choose("size", 11)]
	b := make([]byte, n)
	for i := range b {
		b[i] = byte(i % 251)
	}
	if n > 0 {
		b[0] = symapi.Byte("first")
	}
	k, err := c.Write(b)
	symapi.Assert(err == nil && k == n, "write-reports-all-bytes")
	symapi.Assert(len(s.msgs) == 1, "one-websocket-message-per-write")
	symapi.Assert(len(s.msgs[0]) == n, "message-holds-all-bytes")
	for i := 0; i < n; i += 997 {
		symapi.Assert(s.msgs[0][i] == b[i], "message-bytes-in-order")
	}
	if n > 0 {
		symapi.Assert(s.msgs[0][n-1] == b[n-1], "message-bytes-in-order")
	}
	symapi.Reach("end")
}

// verifMsgSocket delivers scripted incoming messages; each message's reader hands its bytes
// out in pieces of at most `piece` bytes (continuation frames, TCP segments).
type verifMsgSocket struct {
	verifSocket
	in    [][]byte
	piece int
}

type verifPieceReader struct {
	b     []byte
	piece int
}

func (r *verifPieceReader) Read(p []byte) (int, error) {
	if len(r.b) == 0 {
		return 0, io.EOF
	}
	n := r.piece
	if n > len(r.b) {
		n = len(r.b)
	}
	if n > len(p) {
		n = len(p)
	}
	copy(p, r.b[:n])
	r.b = r.b[n:]
	return n, nil
}

func (s *verifMsgSocket) NextReader() (int, io.Reader, error) {
	if len(s.in) == 0 {
		return 0, nil, io.EOF
	}
	m := s.in[0]
	s.in = s.in[1:]
	return 2, &verifPieceReader{b: m, piece: s.piece}, nil
}

// VerifReadWholeMessages (C14 / C13): the byte stream read from the WebSocket wrapper is the
// concatenation of the incoming messages - nothing dropped, nothing repeated - however the
// bytes of one message trickle in and whatever buffer size the reader uses.
func VerifReadWholeMessages() {
	msgs := [][]byte{[]byte("ANNOUNCE rtsp://h/a RTSP/1.0\r\nCSeq: 1\r\nContent-Length: 5\r\n\r\nv=0\r\n"), []byte("OPTIONS * RTSP/1.0\r\nCSeq: 2\r\n\r\n"), {'$', 0, 0, 3, 1, 2, 3}}
	var want []byte
	for _, m := range msgs {
		want = append(want, m...)
	}
	s := &verifMsgSocket{in: msgs, piece: []int{1, 7, 64, 4096}[symapi.Choose("piece", 4)]}
	c := newConn(s, "/live/a", "")
	bufSize := []int{1, 5, 16, 4096}[symapi.Choose("readBuffer", 4)]
	var got []byte
	for k := 0; k < 4*len(want)+8; k++ {
		p := make([]byte, bufSize)
		n, err := c.Read(p)
		got = append(got, p[:n]...)
		if err != nil {
			break
		}
	}
	symapi.Assert(len(got) == len(want), "stream-is-the-concatenation-of-the-messages")
	for i := 0; i < len(want) && i < len(got); i++ {
		symapi.Assert(got[i] == want[i], "bytes-in-order")
	}
	symapi.Reach("end")
}
