package websocket

import (
	"io"
	"net"
	"time"

	"github.com/cnotch/ipchub/zzverif/symapi"
)

// verifSocket is the gorilla connection as the wrapper sees it: it records message boundaries.
type verifSocket struct {
	msgs  [][]byte
	types []int
	cur   []byte
	open  bool
}

type verifMsgWriter struct{ s *verifSocket }

func (w verifMsgWriter) Write(p []byte) (int, error) {
	w.s.cur = append(w.s.cur, p...)
	return len(p), nil
}
func (w verifMsgWriter) Close() error {
	w.s.msgs = append(w.s.msgs, w.s.cur)
	w.s.cur = nil
	w.s.open = false
	return nil
}

func (s *verifSocket) NextReader() (int, io.Reader, error) { return 0, nil, io.EOF }
func (s *verifSocket) NextWriter(messageType int) (io.WriteCloser, error) {
	s.types = append(s.types, messageType)
	s.open = true
	return verifMsgWriter{s}, nil
}
func (s *verifSocket) Close() error                       { return nil }
func (s *verifSocket) LocalAddr() net.Addr                { return nil }
func (s *verifSocket) RemoteAddr() net.Addr               { return nil }
func (s *verifSocket) SetReadDeadline(t time.Time) error  { return nil }
func (s *verifSocket) SetWriteDeadline(t time.Time) error { return nil }
func (s *verifSocket) Subprotocol() string                { return "rtsp" }

// VerifOneMessagePerWrite (C13): the sessions hand a complete response or interleaved frame to
// Write in one call; the wrapper must send it as exactly one WebSocket message, whatever its
// size (classes up to a 65535-byte frame plus its prefix and beyond), on the binary and on the
// text transport.
func VerifOneMessagePerWrite() {
	s := &verifSocket{}
	var c Conn = newConn(s, "/live/a", "")
	if symapi.Bool("text") {
		c = c.TextTransport()
	}
	n := []int{0, 1, 125, 126, 4096, 32767, 32768, 32769, 65535, 65539, 100000}[symapi.Choose("size", 11)]
	b := make([]byte, n)
	for i := range b {
		b[i] = byte(i % 251)
	}
	if n > 0 {
		b[0] = symapi.Byte("first")
	}
	k, err := c.Write(b)
	symapi.Assert(err == nil && k == n, "write-reports-all-bytes")
	symapi.Assert(len(s.msgs) == 1, "one-websocket-message-per-write")
	symapi.Assert(len(s.msgs[0]) == n, "message-holds-all-bytes")
	for i := 0; i < n; i += 997 {
		symapi.Assert(s.msgs[0][i] == b[i], "message-bytes-in-order")
	}
	if n > 0 {
		symapi.Assert(s.msgs[0][n-1] == b[n-1], "message-bytes-in-order")
	}
	symapi.Reach("end")
}
