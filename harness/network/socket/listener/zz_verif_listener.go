package listener

import (
	"io"
	"net"
	"time"

	"github.com/cnotch/ipchub/zzverif/symapi"
)

// verifSrc is a TCP-like source: it delivers the stream in chunks of symbolic size and
// never returns data together with an error.
type verifSrc struct {
	net.Conn
	data   []byte
	pos    int
	closed int
	cuts   []int // chunk boundaries (absolute positions); a read never crosses the next boundary

	deadlineSet     int
	deadlineCleared bool
}

func (s *verifSrc) Read(p []byte) (int, error) {
	if s.pos >= len(s.data) {
		return 0, io.EOF
	}
	if len(p) == 0 {
		return 0, nil
	}
	end := len(s.data)
	for _, c := range s.cuts {
		if c > s.pos && c < end {
			end = c
		}
	}
	n := end - s.pos
	if n > len(p) {
		n = len(p)
	}
	copy(p, s.data[s.pos:s.pos+n])
	s.pos += n
	return n, nil
}
func (s *verifSrc) Close() error { s.closed++; return nil }
func (s *verifSrc) SetReadDeadline(t time.Time) error {
	if t.IsZero() {
		s.deadlineCleared = true
	} else {
		s.deadlineSet++
		s.deadlineCleared = false
	}
	return nil
}
func (s *verifSrc) RemoteAddr() net.Addr { return nil }

var verifRtspPrefixes = []string{"OPTIONS * RTSP", "OPTIONS * rtsp", "OPTIONS rtsp://", "OPTIONS RTSP://",
	"DESCRIBE", "ANNOUNCE", "SETUP", "PLAY", "PAUSE", "TEARDOWN", "GET_PARAMETER", "SET_PARAMETER", "RECORD", "REDIRECT"}

func verifHasPrefix(s []byte, p string) bool {
	if len(s) < len(p) {
		return false
	}
	for i := 0; i < len(p); i++ {
		if s[i] != p[i] {
			return false
		}
	}
	return true
}

func verifAnyPrefix(s []byte, ps []string) bool {
	r := false
	for _, p := range ps {
		if verifHasPrefix(s, p) {
			r = true
		}
	}
	return r
}

// VerifSniffReplay: whatever the matchers consumed while sniffing is replayed to the
// service in order, exactly once, for every chunking of the stream and every read size.
func VerifSniffReplay() {
	N := symapi.Param("N", 8)
	n := symapi.IntRange("n", 0, N)
	S := symapi.Bytes("S", n)
	orig := make([]byte, n)
	copy(orig, S)
	// the stream starts with a fixed, recognisable head so that long prefixes are reachable
	head := []string{"", "OPTIONS * RTS", "GE", "DESCRIB", "OPTIONS rtsp:/"}[symapi.Choose("head", 5)]
	full := append([]byte(head), orig...)
	src := &verifSrc{data: full}
	// the stream arrives in up to three chunks with symbolic boundaries
	c1 := symapi.IntRange("cut1", 0, len(full))
	c2 := symapi.IntRange("cut2", c1, len(full))
	src.cuts = []int{c1, c2}
	muc := newConn(src)
	matchers := []Matcher{MatchPrefix(verifRtspPrefixes...), MatchHTTP()}
	chosen := -1
	for i, mt := range matchers {
		if mt(muc.startSniffing()) {
			muc.doneSniffing()
			chosen = i
			break
		}
	}
	// reference classification (first matching service in registration order)
	want := -1
	if verifAnyPrefix(full, verifRtspPrefixes) {
		want = 0
	} else if verifAnyPrefix(full, defaultHTTPMethods) {
		want = 1
	}
	symapi.Assert(chosen == want, "routed-to-reference-service")
	if chosen < 0 {
		symapi.Reach("unmatched")
		return
	}
	// the service now reads the connection with arbitrary buffer sizes
	var got []byte
	rd := []int{1, 2, 5, len(full) + 1}[symapi.Choose("rd", 4)]
	for k := 0; k < 4*len(full)+4; k++ {
		p := make([]byte, rd)
		rn, err := muc.Read(p)
		got = append(got, p[:rn]...)
		if err != nil {
			break
		}
	}
	symapi.Assert(len(got) == len(full), "no-byte-lost-or-duplicated")
	for i := 0; i < len(full) && i < len(got); i++ {
		symapi.Assert(got[i] == full[i], "bytes-in-order")
	}
	symapi.Reach("end")
}

// twin: claims the sniffed bytes are NOT replayed
func VerifSniffReplayTwin() {
	S := []byte("GET /x")
	src := &verifSrc{data: S}
	muc := newConn(src)
	ok := MatchHTTP()(muc.startSniffing())
	muc.doneSniffing()
	p := make([]byte, 8)
	rn, _ := muc.Read(p)
	symapi.Assert(ok && rn == 0, "twin-sniffed-bytes-not-replayed")
}
