package listener

import (
	"net"
	"sync"
	"time"

	"github.com/cnotch/ipchub/zzverif/symapi"
)

// VerifListenerServe (C19): what the multiplexer does with one accepted connection: it is
// handed to exactly one service - the first whose matcher accepts its first bytes, in
// registration order - with its read deadline cleared and its byte stream intact, or it is
// closed when no matcher accepts it.
func VerifListenerServe() {
	m := &Listener{bufferSize: 4, errorHandler: func(error) bool { return true }, closing: make(chan struct{}),
		readTimeout: 2 * time.Second, settingsHandler: func(_ net.Conn) {}}
	rtspL := m.Match(MatchPrefix(verifRtspPrefixes...)).(muxListener)
	httpL := m.Match(MatchHTTP()).(muxListener)
	head := []string{"OPTIONS * RTSP/1.0\r\n", "OPTIONS * HTTP/1.1\r\n", "OPTIONS /x HTTP/1.1\r\n", "DESCRIBE rtsp://h/a RTSP/1.0\r\n", "GET /a.flv HTTP/1.1\r\n", "BREW /pot HTCPCP/1.0\r\n", "DESCR", "GE", ""}[symapi.Choose("firstLine", 9)]
	full := append([]byte(head), symapi.Bytes("tail", 2)...)
	src := &verifSrc{data: full}
	c1 := symapi.IntRange("cut1", 0, len(full))
	src.cuts = []int{c1}
	var wg sync.WaitGroup
	wg.Add(1)
	m.serve(src, m.closing, &wg)
	want := -1
	if verifAnyPrefix(full, verifRtspPrefixes) {
		want = 0
	} else if verifAnyPrefix(full, defaultHTTPMethods) {
		want = 1
	}
	nr, nh := len(rtspL.connections), len(httpL.connections)
	switch want {
	case 0:
		symapi.Assert(nr == 1 && nh == 0 && src.closed == 0, "rtsp-first-line-reaches-the-rtsp-service-only")
	case 1:
		symapi.Assert(nr == 0 && nh == 1 && src.closed == 0, "http-first-line-reaches-the-http-service-only")
	default:
		symapi.Assert(nr == 0 && nh == 0 && src.closed == 1, "unmatched-connection-closed-and-handed-to-nobody")
		symapi.Reach("unmatched")
		return
	}
	symapi.Assert(src.deadlineSet >= 1 && src.deadlineCleared, "sniff-deadline-set-and-cleared-before-the-hand-off")
	var conn net.Conn
	if want == 0 {
		conn = <-rtspL.connections
	} else {
		conn = <-httpL.connections
	}
	var got []byte
	for k := 0; k < 4*len(full)+4; k++ {
		p := make([]byte, 3)
		n, err := conn.Read(p)
		got = append(got, p[:n]...)
		if err != nil {
			break
		}
	}
	symapi.Assert(len(got) == len(full), "no-byte-lost-or-duplicated")
	for i := 0; i < len(full) && i < len(got); i++ {
		symapi.Assert(got[i] == full[i], "bytes-in-order")
	}
	symapi.Reach("end")
}

// VerifHandOffBackpressure (C19, threads): a matched connection is never shed because the
// service has not accepted yet: with the service's queue full (capacity 1 here instead of
// 1024 - the code does not depend on the number) further matched connections wait; once the
// service accepts, every one of them arrives, none was closed.
func VerifHandOffBackpressure() {
	m := &Listener{bufferSize: 1, errorHandler: func(error) bool { return true }, closing: make(chan struct{}),
		readTimeout: 2 * time.Second, settingsHandler: func(_ net.Conn) {}}
	rtspL := m.Match(MatchPrefix(verifRtspPrefixes...)).(muxListener)
	srcs := []*verifSrc{{data: []byte("OPTIONS * RTSP/1.0\r\n")}, {data: []byte("DESCRIBE rtsp://h/a RTSP/1.0\r\n")}, {data: []byte("PLAY rtsp://h/a RTSP/1.0\r\n")}}
	var wg sync.WaitGroup
	wg.Add(len(srcs))
	for _, s := range srcs {
		s := s
		symapi.Go(func() { m.serve(s, m.closing, &wg) })
	}
	symapi.Quiesce() // the service is busy: nothing accepted yet
	for _, s := range srcs {
		symapi.Assert(s.closed == 0, "pending-matched-connection-not-closed-while-the-service-is-busy")
	}
	got := 0
	for range srcs {
		c, err := rtspL.Accept()
		symapi.Assert(err == nil && c != nil, "service-accepts-every-pending-connection")
		got++
	}
	symapi.Quiesce()
	for _, s := range srcs {
		symapi.Assert(s.closed == 0, "accepted-connection-not-closed-by-the-multiplexer")
	}
	symapi.Assert(got == len(srcs), "all-arrive")
	symapi.Reach("end")
}

// VerifRoot is a scripted root listener for harnesses of packages that build on Listener
// (service): Accept yields the scripted connections in order, then blocks until closed.
type VerifRoot struct {
	Heads  []string
	Srcs   []*verifSrc
	next   int
	Closed bool
	wake   chan struct{}
}

type verifClosedErr struct{}

func (verifClosedErr) Error() string   { return "use of closed network connection" }
func (verifClosedErr) Temporary() bool { return false }
func (verifClosedErr) Timeout() bool   { return false }

func (r *VerifRoot) Accept() (net.Conn, error) {
	if r.Closed {
		return nil, verifClosedErr{}
	}
	if r.next < len(r.Heads) {
		s := &verifSrc{data: []byte(r.Heads[r.next])}
		r.Srcs = append(r.Srcs, s)
		r.next++
		return s, nil
	}
	<-r.wake
	return nil, verifClosedErr{}
}
func (r *VerifRoot) Close() error {
	if !r.Closed {
		r.Closed = true
		close(r.wake)
	}
	return nil
}
func (r *VerifRoot) Addr() net.Addr { return nil }

// VerifClosedCount reports how often the i-th accepted connection was closed.
func (r *VerifRoot) VerifClosedCount(i int) int {
	if i >= len(r.Srcs) {
		return -1
	}
	return r.Srcs[i].closed
}

// VerifNewMux is New without net.Listen: the multiplexer over a given root listener.
func VerifNewMux(heads ...string) (*Listener, *VerifRoot) {
	root := &VerifRoot{Heads: heads, wake: make(chan struct{})}
	return &Listener{root: root, bufferSize: 1024, errorHandler: func(_ error) bool { return true },
		closing: make(chan struct{}), readTimeout: noTimeout, settingsHandler: func(_ net.Conn) {}}, root
}
