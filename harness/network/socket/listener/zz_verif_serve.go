package listener

import (
	"net"
	"sync"
	"time"

	"github.com/cnotch/ipchub/zzverif/symapi"
)

// VerifListenerServe (C19): what the multiplexer does with one accepted connection: it is
// handed to exactly one service - the first whose matcher accepts its first bytes, in
// registration order - with its read deadline cleared and its byte stream intact, or it is
// closed when no matcher accepts it.
func VerifListenerServe() {
	m := &Listener{bufferSize: 4, errorHandler: func(error) bool { return true }, closing: make(chan struct{}),
		readTimeout: 2 * time.Second, settingsHandler: func(_ net.Conn) {}}
	rtspL := m.Match(MatchPrefix(verifRtspPrefixes...)).(muxListener)
	httpL := m.Match(MatchHTTP()).(muxListener)
	head := []string{"OPTIONS * RTSP/1.0\r\n", "OPTIONS * HTTP/1.1\r\n", "OPTIONS /x HTTP/1.1\r\n", "DESCRIBE rtsp://h/a RTSP/1.0\r\n", "GET /a.flv HTTP/1.1\r\n", "BREW /pot HTCPCP/1.0\r\n", "DESCR", "GE", ""}[symapi.Choose("firstLine", 9)]
	full := append([]byte(head), symapi.Bytes("tail", 2)...)
	src := &verifSrc{data: full}
	c1 := symapi.IntRange("cut1", 0, len(full))
	src.cuts = []int{c1}
	var wg sync.WaitGroup
	wg.Add(1)
	m.serve(src, m.closing, &wg)
	want := -1
	if verifAnyPrefix(full, verifRtspPrefixes) {
		want = 0
	} else if verifAnyPrefix(full, defaultHTTPMethods) {
		want = 1
	}
	nr, nh := len(rtspL.connections), len(httpL.connections)
	switch want {
	case 0:
		symapi.Assert(nr == 1 && nh == 0 && src.closed == 0, "rtsp-first-line-reaches-the-rtsp-service-only")
	case 1:
		symapi.Assert(nr == 0 && nh == 1 && src.closed == 0, "http-first-line-reaches-the-http-service-only")
	default:
		symapi.Assert(nr == 0 && nh == 0 && src.closed == 1, "unmatched-connection-closed-and-handed-to-nobody")
		symapi.Reach("unmatched")
		return
	}
	symapi.Assert(src.deadlineSet >= 1 && src.deadlineCleared, "sniff-deadline-set-and-cleared-before-the-hand-off")
	var conn net.Conn
	if want == 0 {
		conn = <-rtspL.connections
	} else {
		conn = <-httpL.connections
	}
	var got []byte
	for k := 0; k < 4*len(full)+4; k++ {
		p := make([]byte, 3)
		n, err := conn.Read(p)
		got = append(got, p[:n]...)
		if err != nil {
			break
		}
	}
	symapi.Assert(len(got) == len(full), "no-byte-lost-or-duplicated")
	for i := 0; i < len(full) && i < len(got); i++ {
		symapi.Assert(got[i] == full[i], "bytes-in-order")
	}
	symapi.Reach("end")
}
