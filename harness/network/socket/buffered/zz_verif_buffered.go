package buffered

import (
	"bytes"
	"net"
	"time"

	"github.com/cnotch/ipchub/zzverif/symapi"
	"github.com/kelindar/rate"
)

// verifSock records everything written; writes may be short (symbolic count >= 1).
type verifSock struct {
	net.Conn
	log   []byte
	short bool
}

func (s *verifSock) Write(p []byte) (int, error) {
	n := len(p)
	if s.short && n > 1 {
		n = symapi.IntRange("wr", 1, n)
	}
	s.log = append(s.log, p[:n]...)
	return n, nil
}
func (s *verifSock) Close() error { return nil }

func verifConn(sock *verifSock, bs int) *Conn {
	return &Conn{socket: sock, writer: bytes.NewBuffer(make([]byte, 0, bs)), limit: rate.New(50, time.Second), bufferSize: bs}
}

// VerifWriteOrder: for every buffer size, buffered amount, write length, limiter verdict
// and short-write pattern: (socket log ++ buffered bytes) after == before ++ p, and
// Flush then pushes everything to the socket in order.
func VerifWriteOrder() {
	B := symapi.Param("B", 4)
	N := symapi.Param("N", 6)
	bs := symapi.IntRange("bs", 1, B)
	k := symapi.IntRange("k", 0, bs)
	n := symapi.IntRange("n", 0, N)
	sock := &verifSock{short: symapi.Bool("short")}
	c := verifConn(sock, bs)
	pre := symapi.Bytes("pre", k)
	c.writer.Write(pre)
	p := symapi.Bytes("p", n)
	want := append(append([]byte{}, pre...), p...)
	nn, err := c.Write(p)
	symapi.Assert(err == nil && nn == n, "write-reports-all-bytes")
	got := append(append([]byte{}, sock.log...), c.writer.Bytes()...)
	symapi.Assert(len(got) == len(want), "no-byte-lost-or-duplicated")
	for i := 0; i < len(want) && i < len(got); i++ {
		symapi.Assert(got[i] == want[i], "bytes-in-order")
	}
	symapi.Assert(c.writer.Len() <= bs, "buffer-within-its-size")
	c.Flush()
	symapi.Assert(c.writer.Len() == 0 && len(sock.log) == len(want), "flush-empties-buffer")
	for i := 0; i < len(want) && i < len(sock.log); i++ {
		symapi.Assert(sock.log[i] == want[i], "flushed-bytes-in-order")
	}
	symapi.Reach("end")
}

func VerifWriteOrderTwin() {
	sock := &verifSock{}
	c := verifConn(sock, 4)
	c.writer.Write([]byte{1})
	c.Write(symapi.Bytes("p", 2))
	symapi.Assert(len(sock.log) == 0, "twin-nothing-reaches-the-socket")
}

// VerifWriteOrderLarge: the same order property at real sizes - buffer sizes, buffered amounts
// and write lengths drawn from classes around the 8 KiB minimum and the configured size. The
// bytes carry their stream position (mod 251), so any reordering or loss is visible.
func VerifWriteOrderLarge() {
	bs := []int{8192, 8193, 16384}[symapi.Choose("bufferSize", 3)]
	k := []int{0, 1, 4, bs / 2, bs - 8192, bs - 4, bs - 1, bs}[symapi.Choose("buffered", 8)]
	if k < 0 {
		k = 0
	}
	n := []int{0, 1, 4, 1400, 8191, 8192, 8193, bs - k, bs - k + 1, bs, bs + 1, 2*bs + 5}[symapi.Choose("writeLen", 12)]
	sock := &verifSock{}
	c := verifConn(sock, bs)
	verifLimitVerdict = symapi.Bool("limiterBuffers")
	total := k + n
	all := make([]byte, total)
	for i := range all {
		all[i] = byte(i % 251)
	}
	c.writer.Write(all[:k])
	nn, err := c.Write(all[k:])
	symapi.Assert(err == nil && nn == n, "write-reports-all-bytes")
	got := append(append([]byte{}, sock.log...), c.writer.Bytes()...)
	symapi.Assert(len(got) == total, "no-byte-lost-or-duplicated")
	for i := 0; i < total && i < len(got); i++ {
		if got[i] != all[i] {
			symapi.Assert(false, "bytes-in-order")
		}
	}
	symapi.Assert(c.writer.Len() <= bs, "buffer-within-its-size")
	symapi.Reach("end")
}

var verifLimitVerdict bool

func verifLimitStub(l *rate.Limiter) bool { return verifLimitVerdict }
