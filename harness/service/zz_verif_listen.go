package service

import (
	"crypto/tls"
	"net"

	"github.com/cnotch/ipchub/network/socket/listener"
	"github.com/cnotch/ipchub/zzverif/symapi"
	"github.com/cnotch/xlog"
	"github.com/kelindar/tcp"
	"net/http"
)

var (
	verifMux      *listener.Listener
	verifMuxRoot  *listener.VerifRoot
	verifRtspGot  int
	verifHTTPGot  int
	verifMuxHeads []string
)

// listener.New is replaced by this in VerifServiceListen: the same multiplexer over a
// scripted root listener instead of a TCP socket.
func verifListenerNewStub(address string, config *tls.Config) (*listener.Listener, error) {
	verifMux, verifMuxRoot = listener.VerifNewMux(verifMuxHeads...)
	return verifMux, nil
}

// the two protocol servers' accept loops, reduced to counting what they are handed
func verifRtspServeStub(_ *tcp.Server, l net.Listener) error {
	for {
		if _, err := l.Accept(); err != nil {
			return err
		}
		verifRtspGot++
	}
}
func verifHTTPServeStub(_ *http.Server, l net.Listener) error {
	for {
		if _, err := l.Accept(); err != nil {
			return err
		}
		verifHTTPGot++
	}
}

// VerifServiceListen (C19, threads): the port as the service configures it (Service.listen:
// read timeout, error handler, RTSP registered before HTTP): a connection matching no
// protocol is closed and does not disturb the port - the connections accepted after it are
// still routed by their first line, whatever the interleaving of the per-connection
// goroutines.
func VerifServiceListen() {
	order := symapi.Choose("order", 3)
	verifMuxHeads = [][]string{
		{"BREW /pot HTCPCP/1.0\r\n", "OPTIONS * RTSP/1.0\r\n", "GET /a.flv HTTP/1.1\r\n"},
		{"OPTIONS * RTSP/1.0\r\n", "\x16\x03\x01\x02\x00\x01", "GET /a.flv HTTP/1.1\r\n"},
		{"GET /a.flv HTTP/1.1\r\n", "DESCRIBE rtsp://h/a RTSP/1.0\r\n", "SSH-2.0-x\r\n"},
	}[order]
	verifRtspGot, verifHTTPGot = 0, 0
	s := &Service{logger: xlog.L(), rtsp: &tcp.Server{}, http: &http.Server{}}
	s.listen(&net.TCPAddr{Port: 554}, nil)
	symapi.Quiesce()
	symapi.Assert(verifRtspGot == 1, "rtsp-connection-routed-although-another-connection-matched-nothing")
	symapi.Assert(verifHTTPGot == 1, "http-connection-routed-although-another-connection-matched-nothing")
	symapi.Assert(!verifMuxRoot.Closed, "port-stays-open-after-an-unmatched-connection")
	junk := []int{0, 1, 2}[order]
	for i := 0; i < 3; i++ {
		if i == junk {
			symapi.Assert(verifMuxRoot.VerifClosedCount(i) >= 1, "unmatched-connection-closed")
		} else {
			symapi.Assert(verifMuxRoot.VerifClosedCount(i) == 0, "routed-connection-not-closed")
		}
	}
	symapi.Reach("end")
}
