package hls

import (
	"net/http"
	"strings"

	fhls "github.com/cnotch/ipchub/av/format/hls"
	"github.com/cnotch/ipchub/media"
	"github.com/cnotch/ipchub/zzverif/symapi"
	"github.com/cnotch/xlog"
)

type verifRW struct {
	h    http.Header
	code int
	body []byte
}

func (w *verifRW) Header() http.Header {
	if w.h == nil {
		w.h = http.Header{}
	}
	return w.h
}
func (w *verifRW) Write(p []byte) (int, error) { w.body = append(w.body, p...); return len(p), nil }
func (w *verifRW) WriteHeader(c int)           { w.code = c }

// VerifGetM3u8PerCaller (C10): the playlist the HTTP handler serves is generated for THIS
// request: its URIs carry this caller's token (none when none was given) and it lists the
// window as it is now - whatever another caller fetched a moment (any time) before, and also
// after a rollover in between.
func VerifGetM3u8PerCaller() {
	pl := fhls.VerifNewPlaylist(7)
	media.VerifStreamWithHls("/live/h", pl)
	first := []string{"alice-token", ""}[symapi.Choose("firstCallerToken", 2)]
	w1 := &verifRW{}
	GetM3u8(xlog.L(), "/live/h", first, "10.0.0.1:1", w1)
	symapi.Assert(len(w1.body) > 0, "first-playlist-served")
	roll := symapi.Bool("rolloverInBetween")
	if roll {
		fhls.VerifRollover(pl, 10)
	}
	second := []string{"bob-token", ""}[symapi.Choose("secondCallerToken", 2)]
	w2 := &verifRW{}
	GetM3u8(xlog.L(), "/live/h", second, "10.0.0.2:2", w2)
	body := string(w2.body)
	symapi.Assert(!strings.Contains(body, "alice-token"), "no-other-caller's-token-in-the-playlist")
	if second != "" {
		symapi.Assert(strings.Count(body, "?token=bob-token") == 3, "every-uri-carries-this-caller's-token")
	} else {
		symapi.Assert(!strings.Contains(body, "token="), "no-token-when-none-was-given")
	}
	wantSeq := "#EXT-X-MEDIA-SEQUENCE:7\n"
	if roll {
		wantSeq = "#EXT-X-MEDIA-SEQUENCE:8\n"
	}
	symapi.Assert(strings.Contains(body, wantSeq), "playlist-lists-the-current-window")
	symapi.Reach("end")
}
