package service

import (
	"bytes"
	"encoding/json"
	"errors"
	"io/ioutil"
	"net/http"
	"net/url"

	"github.com/cnotch/apirouter"
	"github.com/cnotch/ipchub/media"
	"github.com/cnotch/ipchub/provider/auth"
	"github.com/cnotch/ipchub/provider/route"
	"github.com/cnotch/ipchub/zzverif/symapi"
)

// VerifManagementAPI (C11): the management API as the service installs it on its HTTP mux
// (allow-list, token interceptor, role interceptor, router): resources whose NAME happens to
// be that of an open endpoint (a user called "runtime", a route "/server", a stream
// "/live/login") are protected like any other; a destructive call succeeds only for an
// administrator's valid access token.
func VerifManagementAPI() {
	auth.Save(&auth.User{Name: "root", Password: "x", Admin: true}, true)
	auth.Save(&auth.User{Name: "alice", Password: "pa", PullAccess: "*", PushAccess: "*"}, true)
	auth.Save(&auth.User{Name: "runtime", Password: "r"}, true)
	route.Save(&route.Route{Pattern: "/server", URL: "rtsp://cam/x"})
	st := media.NewStream("/live/login", "")
	media.Regist(st)
	svc := &Service{tokens: new(auth.TokenManager)}
	mux := http.NewServeMux()
	svc.initApis(mux)
	who := symapi.Choose("caller", 3) // 0 nobody, 1 alice (not admin), 2 root
	target := symapi.Choose("target", 3)
	r := &http.Request{Method: "DELETE", URL: &url.URL{Path: []string{"/api/v1/users/runtime", "/api/v1/routes/server", "/api/v1/streams/live/login"}[target]}, Header: http.Header{}}
	switch who {
	case 1:
		r.URL.RawQuery = "token=" + svc.tokens.NewToken("alice").AToken
	case 2:
		r.URL.RawQuery = "token=" + svc.tokens.NewToken("root").AToken
	}
	w := &verifRW{}
	mux.ServeHTTP(w, r)
	gone := false
	switch target {
	case 0:
		gone = auth.Get("runtime") == nil
	case 1:
		gone = route.Get("/server") == nil
	case 2:
		gone = media.Get("/live/login") == nil
	}
	symapi.Assert(gone == (who == 2), "destructive-management-call-takes-effect-only-for-an-administrator")
	if who != 2 {
		symapi.Assert(w.code == http.StatusUnauthorized || w.code == http.StatusForbidden, "refused-with-401-or-403")
	}
	symapi.Reach("end")
}

// In VerifSaveUserAPI (*json.Decoder).Decode is replaced by this (encoding/json works by
// reflection): the request body "decodes" to the user the harness prepared.
var verifBodyUser *auth.User

func verifJSONDecodeStub(dec *json.Decoder, v interface{}) error {
	if u, ok := v.(*auth.User); ok && verifBodyUser != nil {
		*u = *verifBodyUser
		return nil
	}
	return errors.New("unexpected JSON target")
}

// VerifSaveUserAPI (C16 / C11): rights follow what the administrator last saved through the
// API: a right saved as empty permits nothing afterwards (except an administrator's default),
// a right saved as a pattern permits exactly what the pattern says.
func VerifSaveUserAPI() {
	auth.Save(&auth.User{Name: "bob", Password: "pb", PushAccess: "/up/+", PullAccess: "/b/+"}, true)
	svc := &Service{tokens: new(auth.TokenManager)}
	push := []string{"", "/up/+", "/other/*"}[symapi.Choose("pushSaved", 3)]
	pull := []string{"", "/b/+", "*"}[symapi.Choose("pullSaved", 3)]
	admin := symapi.Bool("admin")
	verifBodyUser = &auth.User{Name: "bob", Admin: admin, PushAccess: push, PullAccess: pull}
	w := &verifRW{}
	body, _ := json.Marshal(verifBodyUser) // a native replay decodes this for real
	svc.onSaveUser(w, &http.Request{Method: "POST", URL: &url.URL{Path: "/api/v1/users"}, Header: http.Header{}, Body: ioutil.NopCloser(bytes.NewReader(body))}, apirouter.Params{})
	symapi.Assert(w.code == http.StatusOK || w.code == 0, "save-answers-200")
	u := auth.Get("bob")
	symapi.Assert(u != nil, "user-exists")
	wantPush := push == "/up/+" || (admin && push == "")
	wantPull := pull == "/b/+" || pull == "*" || (admin && pull == "")
	symapi.Assert(u.ValidatePermission("/up/cam", auth.PushRight) == wantPush, "push-right-as-last-saved-through-the-api")
	symapi.Assert(u.ValidatePermission("/b/x", auth.PullRight) == wantPull, "pull-right-as-last-saved-through-the-api")
	symapi.Reach("end")
}

// VerifRouteAPI (C17 / C18): the route management API addresses exactly the pattern it is
// given: with any subset of an exact route and the directory route of the same name in the
// table, DELETE of one pattern (repeated - clients retry) removes that pattern only, and
// lookups afterwards resolve against what is left.
func VerifRouteAPI() {
	auth.Save(&auth.User{Name: "root", Password: "x", Admin: true}, true)
	pats := []string{"/live", "/live/", "/live/cam"}
	have := make([]bool, len(pats))
	for i, p := range pats {
		have[i] = symapi.Bool("have" + string(rune('0'+i)))
		if have[i] {
			route.Save(&route.Route{Pattern: p, URL: "rtsp://h" + p})
		}
	}
	svc := &Service{tokens: new(auth.TokenManager)}
	mux := http.NewServeMux()
	svc.initApis(mux)
	target := symapi.Choose("target", len(pats))
	times := 1 + symapi.Choose("retries", 2)
	for k := 0; k < times; k++ {
		r := &http.Request{Method: "DELETE", URL: &url.URL{Path: "/api/v1/routes" + pats[target]}, Header: http.Header{}}
		r.URL.RawQuery = "token=" + svc.tokens.NewToken("root").AToken
		mux.ServeHTTP(&verifRW{}, r)
	}
	for i, p := range pats {
		want := have[i] && i != target
		symapi.Assert((route.Get(p) != nil) == want, "delete-removes-exactly-the-addressed-pattern")
	}
	// resolution against what is left: "/live" resolves through the exact route only
	m := route.Match("/live")
	if have[0] && target != 0 {
		symapi.Assert(m != nil && m.URL == "rtsp://h/live", "exact-route-still-resolves-after-deleting-its-directory-namesake")
	}
	symapi.Reach("end")
}
