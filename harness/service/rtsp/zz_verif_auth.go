package rtsp

import (
	"net/url"

	"github.com/cnotch/ipchub/config"
	"github.com/cnotch/ipchub/media"
	"github.com/cnotch/ipchub/network/websocket"
	"github.com/cnotch/ipchub/provider/auth"
	"github.com/cnotch/ipchub/zzverif/symapi"
)

type verifCred struct {
	user, pass string
	valid      bool // user exists and password is right
	pull, push bool // rights on /live/*
}

var verifCreds = []verifCred{
	{"", "", false, false, false},
	{"alice", "pa", true, true, false},
	{"alice", "bad", false, false, false},
	{"bob", "pb", true, false, true},
	{"carol", "pc", true, false, false},
	{"ghost", "x", false, false, false},
}

func verifUsers() {
	auth.Save(&auth.User{Name: "alice", Password: "pa", PullAccess: "/live/*"}, true)
	auth.Save(&auth.User{Name: "bob", Password: "pb", PushAccess: "/live/*"}, true)
	auth.Save(&auth.User{Name: "carol", Password: "pc", PullAccess: "/other/*"}, true)
}

func verifAuthReq(s *Session, digest bool, c verifCred, method, rawurl, cseq, transport, body string) *Request {
	r := verifReq(method, rawurl, cseq, transport, body)
	if c.user != "" {
		if digest {
			u, _ := url.Parse(rawurl)
			r.SetDigestAuth(u, realm, s.nonce, c.user, c.pass)
		} else {
			r.SetBasicAuth(c.user, c.pass)
		}
	}
	return r
}

// VerifSessionAuth: with authentication on, media is attached only for a caller
// authenticated as a user whose pull right covers the path, a stream is published only
// with the push right; bad credentials give 401 and change nothing; entitled users are
// not refused.
func VerifSessionAuth() {
	verifUsers()
	src := media.NewStream("/live/a", verifSdp)
	media.Regist(src)
	digest := symapi.Bool("digest")
	c := verifCreds[symapi.Choose("cred", len(verifCreds))]
	fc := &verifConn{}
	s := verifSession(fc)
	s.authMode = auth.BasicAuth
	if digest {
		s.authMode = auth.DigestAuth
	}
	record := symapi.Bool("record")
	type step struct{ method, url, transport, body string }
	var steps []step
	path := "/live/a"
	if record {
		path = "/live/b"
		steps = []step{{MethodAnnounce, "rtsp://h/live/b", "", verifSdp}, {MethodSetup, "rtsp://h/live/b/trackID=0", verifTransports[1], ""}, {MethodRecord, "rtsp://h/live/b", "", ""}}
	} else {
		steps = []step{{MethodDescribe, "rtsp://h/live/a", "", ""}, {MethodSetup, "rtsp://h/live/a/trackID=0", verifTransports[0], ""}, {MethodPlay, "rtsp://h/live/a", "", ""}}
	}
	entitled := c.valid && ((record && c.push) || (!record && c.pull))
	for i, st := range steps {
		before := len(fc.out)
		st0 := s.status
		s.onRequest(verifAuthReq(s, digest, c, st.method, st.url, string(rune('1'+i)), st.transport, st.body))
		rs := verifResponses(fc.out[before:])
		symapi.Assert(len(rs) == 1 && rs[0] != nil, "exactly-one-response-per-request")
		code := rs[0].StatusCode
		if !c.valid {
			symapi.Assert(code == 401 || code == 455, "invalid-credentials-get-401-or-state-refusal")
			symapi.Assert(s.status == st0 && s.consumer == defaultConsumer && s.stream == defaultStream, "refused-request-changes-nothing")
		} else if !entitled {
			symapi.Assert(code != 200, "user-without-right-refused")
		} else {
			symapi.Assert(code == 200, "entitled-user-not-refused")
		}
	}
	if record {
		symapi.Assert((media.Get(path) != nil) == entitled, "published-only-with-push-right")
	} else {
		symapi.Assert((src.ConsumerCount() == 1) == entitled, "media-only-with-pull-right")
	}
	symapi.Reach("end")
}

// ---- ws-rtsp: the HTTP layer authenticated the user; the RTSP-over-WebSocket session
// must still apply that user's rights.

type verifWsConn struct {
	verifConn
	path, user string
}

func (c *verifWsConn) Subprotocol() string           { return "rtsp" }
func (c *verifWsConn) TextTransport() websocket.Conn { return c }
func (c *verifWsConn) Path() string                  { return c.path }
func (c *verifWsConn) Username() string              { return c.user }

func VerifWsSessionAuth() {
	config.VerifSetAuth(true)
	verifUsers()
	src := media.NewStream("/live/a", verifSdp)
	media.Regist(src)
	// The HTTP layer admits the WebSocket only for a user whose pull right covers the ws
	// path (permissionInterceptor, checked in VerifHTTPPermissionPath); alice has it on
	// /live/a, dave has pull and push.
	auth.Save(&auth.User{Name: "dave", Password: "pd", PullAccess: "/live/*", PushAccess: "/live/*"}, true)
	who := []verifCred{verifCreds[1], {"dave", "pd", true, true, true}}[symapi.Choose("who", 2)]
	ws := &verifWsConn{path: "/live/a", user: who.user}
	s := newSession(&Server{}, ws)
	record := symapi.Bool("record")
	if record {
		s.onRequest(verifReq(MethodAnnounce, "rtsp://h/live/b", "1", "", verifSdp))
		s.onRequest(verifReq(MethodSetup, "rtsp://h/live/b/trackID=0", "2", verifTransports[1], ""))
		s.onRequest(verifReq(MethodRecord, "rtsp://h/live/b", "3", "", ""))
		symapi.Assert((media.Get("/live/b") != nil) == who.push, "ws-published-only-with-push-right")
	} else {
		s.onRequest(verifReq(MethodDescribe, "rtsp://h/live/a", "1", "", ""))
		s.onRequest(verifReq(MethodSetup, "rtsp://h/live/a/trackID=0", "2", verifTransports[0], ""))
		s.onRequest(verifReq(MethodPlay, "rtsp://h/live/a", "3", "", ""))
		symapi.Assert((src.ConsumerCount() == 1) == who.pull, "ws-media-only-with-pull-right")
	}
	symapi.Reach("end")
}
