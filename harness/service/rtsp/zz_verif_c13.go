package rtsp

import (
	"bufio"
	"bytes"

	"github.com/kelindar/rate"

	"github.com/cnotch/ipchub/media"
	"github.com/cnotch/ipchub/zzverif/symapi"
)

// verifWhole parses b as a sequence of whole interleaved frames and whole responses.
func verifWhole(b []byte, channels []int) (frames []*RTPPack, resps []*Response, ok bool) {
	r := bufio.NewReader(bytes.NewReader(b))
	for {
		sl, err := r.Peek(1)
		if err != nil {
			return frames, resps, true
		}
		if sl[0] == rtpPackPrefix {
			p, err := ReadPacket(r, channels)
			if err != nil || p == nil {
				return frames, resps, false
			}
			frames = append(frames, p)
			continue
		}
		hd, err := r.Peek(9)
		if err != nil || string(hd) != "RTSP/1.0 " {
			return frames, resps, false
		}
		resp, err := ReadResponse(r)
		if err != nil {
			return frames, resps, false
		}
		resps = append(resps, resp)
	}
}

// In the executor (*rate.Limiter).Limit is replaced by this function: one symbolic verdict
// per scenario (buffer or write through); natively the real limiter decides.
var verifLimitVerdict bool

func verifLimitStub(l *rate.Limiter) bool { return verifLimitVerdict }

// VerifNoTear: a media frame and a response written concurrently on a playing TCP session
// are never spliced, for every interleaving.
func VerifNoTear() {
	symapi.Deterministic(true) // set-up: no interleaving exploration
	src := media.NewStream("/live/a", verifSdp)
	media.Regist(src)
	fc := &verifConn{}
	s := verifSession(fc)
	s.onRequest(verifReq(MethodDescribe, "rtsp://h/live/a", "1", "", ""))
	s.onRequest(verifReq(MethodSetup, "rtsp://h/live/a/trackID=0", "2", verifTransports[0], ""))
	s.onRequest(verifReq(MethodPlay, "rtsp://h/live/a", "3", "", ""))
	symapi.Assert(s.status == statusPlaying, "playing-reached")
	symapi.Settle()
	symapi.Deterministic(false)
	s.conn.Flush()
	mark := len(fc.out)
	verifLimitVerdict = symapi.Bool("limiterBuffers")
	// concrete, recognisable frame content: the property is about interleaving, and a torn
	// stream is then parsed concretely
	data := []byte{0x80, 96, 0, 1, 0, 0, 0, 2, 0, 0, 0, 3, 0xAA, 0xBB}[:12+symapi.IntRange("n", 0, 2)]
	pkt := &RTPPack{Channel: ChannelVideo, Data: data}
	second := symapi.Bool("secondFrame")
	symapi.Go(func() {
		s.Consume(pkt) // what the delivery goroutine does for every packet
		if second {
			s.Consume(pkt)
		}
	})
	method := []string{MethodOptions, MethodPlay}[symapi.Choose("req", 2)]
	s.onRequest(verifReq(method, "rtsp://h/live/a", "4", "", ""))
	symapi.Quiesce()
	s.lockW.Lock()
	s.conn.Flush()
	s.lockW.Unlock()
	frames, resps, ok := verifWhole(fc.out[mark:], s.transport.Channels[:])
	symapi.Assert(ok, "only-whole-frames-and-responses-on-the-wire")
	nf := 1
	if second {
		nf = 2
	}
	symapi.Assert(len(frames) == nf && len(resps) == 1, "one-response-and-the-frames")
	for _, f := range frames {
		symapi.Assert(len(f.Data) == len(data), "frame-length")
		for i := range data {
			symapi.Assert(f.Data[i] == data[i], "frame-bytes")
		}
	}
	if len(resps) == 1 {
		symapi.Assert(resps[0].Header.Get(FieldCSeq) == "4", "response-intact")
	}
	symapi.Reach("end")
}

// VerifWsWholeMessages: over WebSocket every message is exactly one response or one frame.
func VerifWsWholeMessages() {
	symapi.Deterministic(true)
	src := media.NewStream("/live/a", verifSdp)
	media.Regist(src)
	ws := &verifWsConn{path: "/live/a", user: ""}
	s := newSession(&Server{}, ws)
	s.onRequest(verifReq(MethodDescribe, "rtsp://h/live/a", "1", "", ""))
	s.onRequest(verifReq(MethodSetup, "rtsp://h/live/a/trackID=0", "2", verifTransports[0], ""))
	s.onRequest(verifReq(MethodPlay, "rtsp://h/live/a", "3", "", ""))
	symapi.Assert(s.status == statusPlaying, "playing-reached")
	symapi.Settle()
	symapi.Deterministic(false)
	mark := len(ws.msgs)
	data := []byte{0x80, 96, 0, 1, 0, 0, 0, 2, 0, 0, 0, 3, 0xAA, 0xBB}[:12+symapi.IntRange("n", 0, 2)]
	pkt := &RTPPack{Channel: ChannelVideo, Data: data}
	symapi.Go(func() { s.Consume(pkt); s.Consume(pkt) })
	s.onRequest(verifReq(MethodOptions, "rtsp://h/live/a", "4", "", ""))
	symapi.Quiesce()
	msgs := ws.msgs[mark:]
	symapi.Assert(len(msgs) == 3, "three-messages")
	nf, nr := 0, 0
	for _, m := range msgs {
		frames, resps, ok := verifWhole(m, s.transport.Channels[:])
		symapi.Assert(ok && len(frames)+len(resps) == 1, "each-websocket-message-is-one-whole-frame-or-response")
		nf += len(frames)
		nr += len(resps)
		for _, f := range frames {
			symapi.Assert(len(f.Data) == len(data), "frame-length")
		}
	}
	symapi.Assert(nf == 2 && nr == 1, "two-frames-one-response")
	symapi.Reach("end")
}
