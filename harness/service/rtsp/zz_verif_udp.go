package rtsp

import (
	"net"

	"github.com/cnotch/ipchub/media"
	"github.com/cnotch/ipchub/zzverif/symapi"
)

// VerifUDPPlayerSendFailure (C07): a packet the publisher sends that cannot go out as one UDP
// datagram (65508..65535 bytes are legal in the interleaved framing), or any other failing
// send, costs a UDP player that packet only: the player stays attached and keeps receiving the
// following packets.
func VerifUDPPlayerSendFailure() {
	src := media.NewStream("/live/a", verifSdp)
	media.Regist(src)
	fc := &verifConn{}
	s := verifSession(fc)
	s.status = statusPlaying
	c := &udpConsumer{Session: s, source: src, udpConn: &net.UDPConn{}} // every send on it fails
	c.destAddr[ChannelVideo] = &net.UDPAddr{IP: net.IPv4(10, 0, 0, 7), Port: 5000}
	c.cid = src.StartConsume(c, media.RTPPacket, "udp player")
	n := []int{12, 1400, 65507, 65508, 65535}[symapi.Choose("packetSize", 5)]
	data := make([]byte, n)
	data[0], data[1] = 0x80, 96
	c.Consume(&RTPPack{Channel: ChannelVideo, Data: data})
	symapi.Assert(!c.closed, "udp-player-not-closed-by-a-failing-send")
	symapi.Assert(src.ConsumerCount() == 1, "udp-player-still-attached")
	symapi.Assert(fc.closed == 0, "player's-rtsp-connection-untouched")
	symapi.Reach("end")
}
