package rtsp

import (
	"encoding/base64"
	"encoding/binary"

	"github.com/cnotch/ipchub/config"
	"github.com/cnotch/ipchub/media"
	"github.com/cnotch/ipchub/provider/auth"
	"github.com/cnotch/ipchub/provider/security"
	"github.com/cnotch/ipchub/zzverif/symapi"
	"github.com/cnotch/xlog"
)

// VerifSessionAuthHistory: decisions follow the user table as last saved, also inside one
// session. alice plays /live/a with correct credentials; before step k the administrator
// deletes her, narrows her pull right, changes her password, or deletes and re-creates her
// with another password. From then on the same credentials must no longer be accepted.
func VerifSessionAuthHistory() {
	verifUsers()
	src := media.NewStream("/live/a", verifSdp)
	media.Regist(src)
	digest := symapi.Bool("digest")
	fc := &verifConn{}
	s := verifSession(fc)
	s.authMode = auth.BasicAuth
	if digest {
		s.authMode = auth.DigestAuth
	}
	c := verifCreds[1] // alice / pa
	k := symapi.Choose("mutateBefore", 4)
	mut := symapi.Choose("mutation", 5)
	type step struct{ method, url, transport string }
	steps := []step{{MethodDescribe, "rtsp://h/live/a", ""}, {MethodSetup, "rtsp://h/live/a/trackID=0", verifTransports[0]}, {MethodPlay, "rtsp://h/live/a", ""}}
	mutated := false
	stillEntitled := true
	for i, st := range steps {
		if i == k {
			mutated = true
			switch mut {
			case 0:
				auth.Del("alice")
				stillEntitled = false
			case 1:
				auth.Save(&auth.User{Name: "alice", PullAccess: "/other/*"}, false)
				stillEntitled = false
			case 2:
				auth.Save(&auth.User{Name: "alice", Password: "new", PullAccess: "/live/*"}, true)
				stillEntitled = false
			case 3:
				auth.Del("alice")
				auth.Save(&auth.User{Name: "alice", Password: "new", PullAccess: "/live/*"}, true)
				stillEntitled = false
			case 4: // a harmless update: rights widened, password kept
				auth.Save(&auth.User{Name: "alice", PullAccess: "/live/*;/other/*"}, false)
			}
		}
		before := len(fc.out)
		s.onRequest(verifAuthReq(s, digest, c, st.method, st.url, string(rune('1'+i)), st.transport, ""))
		rs := verifResponses(fc.out[before:])
		symapi.Assert(len(rs) == 1 && rs[0] != nil, "exactly-one-response-per-request")
		if stillEntitled {
			symapi.Assert(rs[0].StatusCode == 200, "entitled-user-not-refused")
		} else {
			symapi.Assert(rs[0].StatusCode != 200, "rights-as-last-saved-inside-a-session")
		}
	}
	symapi.Assert((src.ConsumerCount() == 1) == stillEntitled, "media-only-with-current-pull-right")
	_ = mutated
	symapi.Reach("end")
}

// VerifWsSessionRights: a ws-rtsp session was admitted by the HTTP layer for its pull right
// on the WebSocket path only. Everything else - publishing on that same path, another
// path, rights narrowed after the upgrade - is decided by the user's current rights.
func VerifWsSessionRights() {
	config.VerifSetAuth(true)
	verifUsers()
	src := media.NewStream("/live/a", verifSdp)
	media.Regist(src)
	auth.Save(&auth.User{Name: "dave", Password: "pd", PullAccess: "/live/*", PushAccess: "/live/*"}, true)
	who := []verifCred{verifCreds[1], {"dave", "pd", true, true, true}}[symapi.Choose("who", 2)]
	ws := &verifWsConn{path: "/live/a", user: who.user}
	s := newSession(&Server{}, ws)
	switch symapi.Choose("scenario", 3) {
	case 0: // publish on the very path the WebSocket was opened on (replacing the live stream)
		for i, r := range []*Request{
			verifReq(MethodAnnounce, "rtsp://h/live/a", "1", "", verifSdp),
			verifReq(MethodSetup, "rtsp://h/live/a/trackID=0", "2", verifTransports[1], ""),
			verifReq(MethodRecord, "rtsp://h/live/a", "3", "", "")} {
			before := len(ws.out)
			s.onRequest(r)
			rs := verifWsResponses(ws.msgs, before, len(ws.out))
			_ = i
			if !who.push {
				symapi.Assert(rs != 200, "ws-publish-step-refused-without-push-right")
			}
		}
		symapi.Assert((media.Get("/live/a") != src) == who.push, "ws-path-replaced-only-with-push-right")
	case 1: // rights narrowed after the upgrade
		auth.Save(&auth.User{Name: who.user, PullAccess: "/other/*"}, false)
		s.onRequest(verifReq(MethodDescribe, "rtsp://h/live/a", "1", "", ""))
		s.onRequest(verifReq(MethodSetup, "rtsp://h/live/a/trackID=0", "2", verifTransports[0], ""))
		s.onRequest(verifReq(MethodPlay, "rtsp://h/live/a", "3", "", ""))
		symapi.Assert(src.ConsumerCount() == 0, "ws-narrowed-rights-no-longer-grant")
	case 2: // the user is deleted after the upgrade
		auth.Del(who.user)
		s.onRequest(verifReq(MethodDescribe, "rtsp://h/live/a", "1", "", ""))
		s.onRequest(verifReq(MethodSetup, "rtsp://h/live/a/trackID=0", "2", verifTransports[0], ""))
		s.onRequest(verifReq(MethodPlay, "rtsp://h/live/a", "3", "", ""))
		symapi.Assert(src.ConsumerCount() == 0, "ws-deleted-user-no-longer-served")
	}
	symapi.Reach("end")
}

// status code of the single response written since offset from (0 when none / unparsable)
func verifWsResponses(msgs [][]byte, from, to int) int {
	off := 0
	for _, m := range msgs {
		if off >= from {
			rs := verifResponses(m)
			if len(rs) == 1 && rs[0] != nil {
				return rs[0].StatusCode
			}
			return 0
		}
		off += len(m)
	}
	return 0
}

// VerifTokenNotDerivable: an unauthenticated RTSP client is told its session id (any
// response) and a digest nonce; afterwards a user logs in and is issued tokens. Whatever
// the client computes from what it was told must not be the access or refresh token: the
// client tries the obvious derivation (the identifiers are consecutive values of one
// process-wide counter, tokens are MD5 of such a value).
func VerifTokenNotDerivable() {
	fc := &verifConn{}
	s := newSession(&Server{logger: xlog.L()}, fc)
	s.authMode = auth.NoneAuth
	s.onRequest(verifReq(MethodOptions, "rtsp://h/live/a", "1", "", ""))
	rs := verifResponses(fc.out)
	symapi.Assert(len(rs) == 1 && rs[0] != nil, "options-answered")
	sid := rs[0].Header.Get(FieldSession) // disclosed to the unauthenticated client
	raw, err := base64.RawURLEncoding.DecodeString(sid)
	tm := new(auth.TokenManager)
	tok := tm.NewToken("admin")
	if err == nil {
		if n, k := binary.Uvarint(raw); k > 0 {
			for d := uint64(1); d <= 4; d++ {
				g := security.ID(n + d).MD5()
				// (no branching on the secret: each guess is one existential obligation)
				symapi.Possible(g != tok.AToken, "access-token-not-computable-from-a-disclosed-session-id")
				symapi.Possible(g != tok.RToken, "refresh-token-not-computable-from-a-disclosed-session-id")
			}
		}
	}
	symapi.Reach("end")
}

// VerifSessionPathSwitch (C11: "switching path ... mid-session"): one authenticated RTSP
// connection asks for a path its user may pull and then for one it may not (and the other way
// round); every decision is made for the path of THAT request.
func VerifSessionPathSwitch() {
	verifUsers() // alice: pull /live/*, bob: push /live/*
	auth.Save(&auth.User{Name: "erin", Password: "pe", PullAccess: "/live/*", PushAccess: "/up/+"}, true)
	for _, p := range []string{"/live/a", "/secret/a"} {
		media.Regist(media.NewStream(p, verifSdp))
	}
	digest := symapi.Bool("digest")
	fc := &verifConn{}
	s := verifSession(fc)
	s.authMode = auth.BasicAuth
	if digest {
		s.authMode = auth.DigestAuth
	}
	c := verifCred{"erin", "pe", true, true, true}
	type step struct {
		method, url, body string
		allowed           bool
	}
	all := []step{
		{MethodDescribe, "rtsp://h/live/a", "", true},
		{MethodDescribe, "rtsp://h/secret/a", "", false},
		{MethodAnnounce, "rtsp://h/up/x", verifSdp, true},
		{MethodAnnounce, "rtsp://h/up/x/y", verifSdp, false},
		{MethodAnnounce, "rtsp://h/live/b", verifSdp, false},
	}
	for k := 0; k < 3; k++ {
		st := all[symapi.Choose("request", len(all))]
		before := len(fc.out)
		s.onRequest(verifAuthReq(s, digest, c, st.method, st.url, string(rune('1'+k)), "", st.body))
		rs := verifResponses(fc.out[before:])
		symapi.Assert(len(rs) == 1 && rs[0] != nil, "exactly-one-response-per-request")
		if rs[0].StatusCode == 455 {
			continue // not legal in this state: says nothing about the right
		}
		symapi.Assert((rs[0].StatusCode == 200) == st.allowed, "decision-made-for-the-path-of-this-request")
	}
	symapi.Reach("end")
}
