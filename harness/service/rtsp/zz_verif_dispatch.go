package rtsp

import (
	"bufio"
	"bytes"

	"github.com/cnotch/ipchub/zzverif/symapi"
	"github.com/cnotch/xlog"
)

type verifHandler struct {
	reqs  []*Request
	resps []*Response
	packs []*RTPPack
	order []byte
}

func (h *verifHandler) onRequest(r *Request) error {
	h.reqs = append(h.reqs, r)
	h.order = append(h.order, 'q')
	return nil
}
func (h *verifHandler) onResponse(r *Response) error {
	h.resps = append(h.resps, r)
	h.order = append(h.order, 'r')
	return nil
}
func (h *verifHandler) onPack(p *RTPPack) error {
	h.packs = append(h.packs, p)
	h.order = append(h.order, 'p')
	return nil
}

// VerifReceiveSequence (C14): the dispatcher reads a concatenation of requests, responses and
// interleaved frames - frames of EVERY length from 0 bytes up (RTCP on the control channels
// is shorter than an RTP header), on media and control channels - one message per call, yields
// exactly that sequence and leaves the stream at the next message.
func VerifReceiveSequence() {
	K := symapi.Param("K", 3)
	var stream bytes.Buffer
	var want []byte
	var lens []int
	for k := 0; k < K; k++ {
		switch symapi.Choose("kind", 3) {
		case 0:
			stream.WriteString("OPTIONS rtsp://h/a RTSP/1.0\r\nCSeq: " + string(rune('1'+k)) + "\r\n\r\n")
			want = append(want, 'q')
			lens = append(lens, -1)
		case 1:
			stream.WriteString("RTSP/1.0 200 OK\r\nCSeq: " + string(rune('1'+k)) + "\r\n\r\n")
			want = append(want, 'r')
			lens = append(lens, -1)
		case 2:
			ctrl := symapi.Bool("controlChannel")
			n := []int{0, 1, 4, 8, 11, 12, 13, 20}[symapi.Choose("frameLen", 8)]
			ch := byte(0)
			if ctrl {
				ch = 1
			} else if n < 12 {
				n = 12 // media channels carry RTP packets (fixed 12-byte header)
			}
			stream.Write([]byte{'$', ch, 0, byte(n)})
			body := make([]byte, n)
			if n > 0 {
				body[0] = 0x80
			}
			if n > 1 {
				body[1] = 200
			}
			stream.Write(body)
			want = append(want, 'p')
			lens = append(lens, n)
		}
	}
	stream.WriteString("NEXT")
	r := bufio.NewReaderSize(bytes.NewReader(stream.Bytes()), 64)
	h := &verifHandler{}
	for k := 0; k < K; k++ {
		before := len(h.order)
		err := receive(xlog.L(), r, []int{0, 1, 2, 3}, h)
		symapi.Assert(err == nil, "well-formed-message-read")
		symapi.Assert(len(h.order) == before+1, "exactly-one-message-per-call")
	}
	symapi.Assert(string(h.order) == string(want), "the-reader-yields-exactly-the-sequence-sent")
	pi := 0
	for k, w := range want {
		if w == 'p' {
			symapi.Assert(len(h.packs[pi].Data) == lens[k], "frame-payload-length-as-sent")
			pi++
		}
	}
	rest, _ := r.Peek(4)
	symapi.Assert(string(rest) == "NEXT", "positioned-at-the-next-message")
	symapi.Reach("end")
}
