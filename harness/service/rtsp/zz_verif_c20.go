package rtsp

import (
	"bufio"
	"bytes"
	"errors"
	"io"
	"net"
	"strconv"
	"strings"
	"time"

	"github.com/cnotch/ipchub/media"
	"github.com/cnotch/ipchub/network/socket/buffered"
	"github.com/cnotch/ipchub/stats"
	"github.com/cnotch/ipchub/zzverif/symapi"
)

// verifCam is the remote camera: a scripted peer whose behaviour per request is symbolic.
type verifCam struct {
	net.Conn
	in      []byte // bytes the client has written (requests)
	pending []byte // bytes the camera has produced and the client has not read yet
	handled int    // requests answered so far
	closed  int
	sdp     string
	maxReq  int
	dead    bool
	// the order of the parameters in a Digest challenge
	nonceFirst bool
	// the camera misbehaves at most twice: at its fault1At-th and fault2At-th answer
	fault1At, fault1Kind, fault2At, fault2Kind int
}

func (c *verifCam) Write(p []byte) (int, error) {
	if c.closed > 0 {
		return 0, errors.New("use of closed connection")
	}
	c.in = append(c.in, p...)
	return len(p), nil
}

func (c *verifCam) Read(p []byte) (int, error) {
	if c.closed > 0 {
		return 0, errors.New("use of closed connection")
	}
	if len(c.pending) == 0 {
		c.answer()
	}
	if len(c.pending) == 0 {
		return 0, io.EOF // the camera hung up / timed out
	}
	n := copy(p, c.pending)
	c.pending = c.pending[n:]
	return n, nil
}
func (c *verifCam) Close() error                    { c.closed++; return nil }
func (c *verifCam) SetReadDeadline(time.Time) error { return nil }
func (c *verifCam) RemoteAddr() net.Addr            { return &net.TCPAddr{IP: net.IPv4(10, 0, 0, 9), Port: 554} }

// answer produces the camera's reaction to the next unanswered request.
func (c *verifCam) answer() {
	reqs := verifRequests(c.in)
	if c.handled >= len(reqs) || c.dead {
		return
	}
	r := reqs[c.handled]
	c.handled++
	k := strconv.Itoa(c.handled)
	cseq := r.Header.Get(FieldCSeq)
	ok := "RTSP/1.0 200 OK\r\nCSeq: " + cseq + "\r\nSession: 12345678;timeout=60\r\n"
	_ = k
	behaviour := 0
	if c.handled == c.fault1At {
		behaviour = c.fault1Kind
	} else if c.handled == c.fault2At {
		behaviour = c.fault2Kind
	}
	switch behaviour {
	case 0: // success
		if r.Method == MethodDescribe {
			c.pending = []byte(ok + "Content-Type: application/sdp\r\nContent-Length: " + strconv.Itoa(len(c.sdp)) + "\r\n\r\n" + c.sdp)
		} else {
			c.pending = []byte(ok + "\r\n")
		}
	case 1:
		// every challenge carries a fresh nonce (cameras rotate them)
		if c.nonceFirst { // RFC 2617 does not fix the order of the challenge parameters
			c.pending = []byte("RTSP/1.0 401 Unauthorized\r\nCSeq: " + cseq + "\r\nWWW-Authenticate: Digest nonce=\"abc" + k + "\", realm=\"cam\"\r\n\r\n")
		} else {
			c.pending = []byte("RTSP/1.0 401 Unauthorized\r\nCSeq: " + cseq + "\r\nWWW-Authenticate: Digest realm=\"cam\", nonce=\"abc" + k + "\"\r\n\r\n")
		}
	case 2:
		c.pending = []byte("RTSP/1.0 401 Unauthorized\r\nCSeq: " + cseq + "\r\nWWW-Authenticate: Basic realm=\"cam\"\r\n\r\n")
	case 3:
		c.pending = []byte("RTSP/1.0 401 Unauthorized\r\nCSeq: " + cseq + "\r\nWWW-Authenticate: Negotiate\r\n\r\n")
	case 4:
		c.pending = []byte("RTSP/1.0 404 Not Found\r\nCSeq: " + cseq + "\r\n\r\n")
	case 5:
		c.pending = []byte("garbage\r\n\r\n")
	case 6:
		c.dead = true // silence: the read fails
	}
}

func verifRequests(in []byte) []*Request {
	var out []*Request
	r := bufio.NewReader(bytes.NewReader(in))
	for {
		if _, err := r.Peek(1); err != nil {
			return out
		}
		q, err := ReadRequest(r)
		if err != nil {
			return out
		}
		out = append(out, q)
	}
}

var verifCamConn *verifCam
var verifConnectFails bool

// (*PullClient).connect is replaced by this in the executor (no sockets).
func verifConnectStub(c *PullClient) error {
	if verifConnectFails {
		return errors.New("dial tcp: connection refused")
	}
	c.closed = false
	c.conn = buffered.NewConn(verifCamConn)
	return nil
}

const verifSdpVideoOnly = "v=0\r\no=- 0 0 IN IP4 127.0.0.1\r\ns=x\r\nt=0 0\r\nm=video 0 RTP/AVP 96\r\na=rtpmap:96 H264/90000\r\na=control:trackID=0\r\n"
const verifSdpAbsolute = "v=0\r\no=- 0 0 IN IP4 127.0.0.1\r\ns=x\r\nt=0 0\r\nm=video 0 RTP/AVP 96\r\na=rtpmap:96 H264/90000\r\na=control:rtsp://cam/live/trackID=0\r\n"

// VerifPullOpen: whatever the camera does during the handshake, Open either succeeds with
// exactly one pull goroutine and a stream, or fails with everything released; it never
// panics; CSeq increases; a logical request is sent at most three times.
func VerifPullOpen() {
	urls := []string{"rtsp://admin:pw@cam/live", "rtsp://cam", "rtsp://cam/", "rtsp://admin:pw@cam/Streaming/Channels/101?transportmode=unicast"}
	remote := urls[symapi.Choose("url", len(urls))]
	c, err := NewPullClient("/pull/a", remote)
	symapi.Assert(err == nil && c != nil, "client-created")
	sdps := []string{verifSdp, verifSdpVideoOnly, verifSdpAbsolute, "not an sdp"}
	cam := &verifCam{sdp: sdps[symapi.Choose("sdp", len(sdps))]}
	cam.fault1At = symapi.IntRange("fault1At", 0, 6) // 0 = never
	cam.nonceFirst = cam.fault1At > 0 && symapi.Bool("challengeListsNonceFirst")
	if cam.fault1At > 0 {
		cam.fault1Kind = symapi.IntRange("fault1Kind", 1, 6)
		if symapi.Param("FAULTS", 1) >= 2 {
			cam.fault2At = symapi.IntRange("fault2At", 0, 7)
			if cam.fault2At <= cam.fault1At {
				cam.fault2At = 0
			} else {
				cam.fault2Kind = symapi.IntRange("fault2Kind", 1, 6)
			}
		} else if cam.fault1Kind <= 2 {
			// a camera that challenged once may challenge again later (fresh nonce, other scheme)
			cam.fault2At = symapi.IntRange("fault2At", 0, 7)
			if cam.fault2At <= cam.fault1At {
				cam.fault2At = 0
			} else {
				cam.fault2Kind = symapi.IntRange("fault2Kind", 1, 2)
			}
		}
	}
	verifCamConn = cam
	verifConnectFails = symapi.Bool("connectFails")
	openErr := c.Open()
	goroutines := symapi.Quiesce()
	reqs := verifRequests(cam.in)
	prev := 0
	for _, r := range reqs {
		n, _ := strconv.Atoi(r.Header.Get(FieldCSeq))
		symapi.Assert(n > prev, "cseq-strictly-increasing")
		prev = n
	}
	symapi.Assert(len(reqs) <= 3*5, "at-most-three-sends-per-logical-request")
	for _, r := range reqs {
		// a camera checks the digest against the Request-URI it received (RFC 2617 3.2.2.5)
		if a := r.Header.Get(FieldAuthorization); strings.HasPrefix(a, "Digest ") {
			i := strings.Index(a, `uri="`)
			symapi.Assert(i >= 0, "digest-authorization-names-a-uri")
			u := a[i+5:]
			u = u[:strings.IndexByte(u, '"')]
			symapi.Assert(u == r.URL.String(), "digest-uri-equals-the-request-uri")
			symapi.Assert(strings.Contains(a, `realm="cam"`) && strings.Contains(a, `nonce="abc`), "digest-answers-the-challenge's-realm-and-nonce")
		}
	}
	if openErr != nil {
		symapi.Assert(c.closed, "failed-open-disconnects")
		if !verifConnectFails {
			symapi.Assert(cam.closed >= 1, "failed-open-closes-the-connection")
		}
		symapi.Assert(c.stream == nil, "failed-open-leaves-no-stream")
		symapi.Assert(goroutines == 0, "failed-open-starts-no-goroutine")
		symapi.Assert(media.Get("/pull/a") == nil, "failed-open-registers-nothing")
		symapi.Reach("failed")
		// a camera that only challenges (Digest or Basic, once or repeatedly, at any step) and
		// otherwise answers normally accepts the route's credentials: the pull must succeed
		challengesOnly := (cam.fault1At == 0 || cam.fault1Kind == 1 || cam.fault1Kind == 2) &&
			(cam.fault2At == 0 || cam.fault2Kind == 1 || cam.fault2Kind == 2)
		symapi.Assert(!(challengesOnly && !verifConnectFails && (remote == urls[0] || remote == urls[3]) && cam.sdp != "not an sdp"),
			"pull-succeeds-when-the-camera-only-challenges")
	} else {
		symapi.Assert(c.stream != nil && !c.closed, "successful-open-has-a-stream")
		symapi.Assert(goroutines >= 1, "successful-open-starts-the-pull-goroutine")
		symapi.Reach("opened")
	}
}

// VerifPullExit: when the pulled connection ends the stream is unregistered, the
// connection closed and the connection counter released, exactly once each.
func VerifPullExit() {
	c, _ := NewPullClient("/pull/a", "rtsp://cam/live")
	cam := &verifCam{sdp: verifSdp, dead: true}
	verifCamConn = cam
	verifConnectFails = false
	c.closed = false
	c.conn = buffered.NewConn(cam)
	c.rawSdp = verifSdp
	c.stream = media.NewStream(c.path, c.rawSdp)
	c.playStream() // registers, then the first receive fails (camera silent)
	symapi.Assert(media.Get("/pull/a") == nil, "stream-unregistered-when-the-pull-ends")
	symapi.Assert(cam.closed == 1 && c.closed, "connection-closed-once")
	symapi.Assert(c.stream == nil && c.conn == nil, "client-reset")
	symapi.Reach("end")
}

// verifStreamingCam keeps sending interleaved RTP frames; when it hands out its closeAt-th
// frame the server side ends the pulled stream (closed by the idle sweep, or replaced by
// another source registering on the same path).
type verifStreamingCam struct {
	verifCam
	frames, total, closeAt int
	after                  int // frames handed out after the stream was ended
	ended                  bool
	end                    func()
}

func (c *verifStreamingCam) Read(p []byte) (int, error) {
	if c.closed > 0 {
		return 0, errors.New("use of closed connection")
	}
	if len(c.pending) == 0 {
		if c.frames >= c.total {
			return 0, io.EOF
		}
		c.frames++
		if c.ended {
			c.after++
		}
		if c.frames == c.closeAt {
			c.end()
			c.ended = true
		}
		c.pending = []byte{'$', 0, 0, 14, 0x80, 96, 0, byte(c.frames), 0, 0, 0, 2, 0, 0, 0, 3, 0x41, 0xAA}
	}
	n := copy(p, c.pending)
	c.pending = c.pending[n:]
	return n, nil
}

// VerifPullStreamEnded: when the pulled stream is ended from the server side while the camera
// keeps sending, the pull notices with the next packet: it stops reading, unregisters only its
// own stream, closes the camera connection and releases the connection count.
func VerifPullStreamEnded() {
	c, _ := NewPullClient("/pull/a", "rtsp://cam/live")
	cam := &verifStreamingCam{total: 6, closeAt: symapi.IntRange("endedAtFrame", 1, 3)}
	replaced := symapi.Bool("replaced")
	var other *media.Stream
	c.closed = false
	c.conn = buffered.NewConn(cam)
	c.rawSdp = verifSdp
	c.stream = media.NewStream(c.path, c.rawSdp)
	own := c.stream
	cam.end = func() {
		if replaced {
			other = media.NewStream("/pull/a", verifSdp)
			media.Regist(other)
		} else {
			media.Unregist(own)
		}
	}
	c.rtpChannels[ChannelVideo] = 0
	conns0 := stats.RtspConns.GetSample().Active
	c.playStream()
	symapi.Assert(cam.after <= 1, "pull-stops-reading-once-its-stream-has-ended")
	symapi.Assert(cam.closed == 1 && c.closed, "camera-connection-closed")
	symapi.Assert(c.stream == nil && c.conn == nil, "client-reset")
	if replaced {
		symapi.Assert(media.Get("/pull/a") == other, "replacing-stream-stays-registered")
	} else {
		symapi.Assert(media.Get("/pull/a") == nil, "nothing-stays-registered")
	}
	symapi.Assert(stats.RtspConns.GetSample().Active == conns0, "connection-count-released")
	symapi.Reach("end")
}

// VerifSetupURL: the SETUP URL for a relative control attribute, for every form of the
// route URL (with path, without path, with trailing slash); never a panic.
func VerifSetupURL() {
	urls := []string{"rtsp://cam/live", "rtsp://cam", "rtsp://cam/", "rtsp://cam/live/"}
	wants := []string{"rtsp://cam:554/live/trackID=0", "rtsp://cam:554/trackID=0", "rtsp://cam:554/trackID=0", "rtsp://cam:554/live/trackID=0"}
	i := symapi.Choose("url", len(urls))
	c, err := NewPullClient("/pull/a", urls[i])
	symapi.Assert(err == nil, "client-created")
	u, err := c.getSetupURL("trackID=0")
	symapi.Assert(err == nil && u != nil && u.String() == wants[i], "setup-url-joined-with-one-slash")
	abs, err := c.getSetupURL("rtsp://other/x/trackID=1")
	symapi.Assert(err == nil && abs.String() == "rtsp://other/x/trackID=1", "absolute-control-used-as-is")
	symapi.Reach("end")
}

// twin: claims a camera answering 404 to DESCRIBE still yields an opened pull
func VerifPullTwin() {
	c, _ := NewPullClient("/pull/a", "rtsp://cam/live")
	cam := &verifCam{sdp: verifSdp, fault1At: 2, fault1Kind: 4}
	verifCamConn = cam
	verifConnectFails = false
	symapi.Assert(c.Open() == nil, "twin-open-succeeds-despite-404")
}

// twin with native replay: claims a double slash in the SETUP URL
func VerifSetupURLTwin() {
	c, _ := NewPullClient("/pull/a", "rtsp://cam/live/")
	u, _ := c.getSetupURL(symapi.String("ctrl", 1) + "x")
	symapi.Assert(u.Path[len("/live/")] == '/', "twin-double-slash")
}

// VerifPullPath (C17 / C20): the pull client publishes under exactly the path it was asked
// for, also when that path contains characters with a meaning in URLs.
func VerifPullPath() {
	paths := []string{"/cams/plain", "/cams/door#1", "/cams/a?b=1", "/cams/a%41", "/cams/a b", "/cams/a+b"}
	p := paths[symapi.Choose("path", len(paths))]
	c, err := NewPullClient(p, "rtsp://cam/live")
	symapi.Assert(err == nil && c != nil, "client-created")
	symapi.Assert(c.path == p, "pulled-stream-published-under-the-requested-path")
	symapi.Reach("end")
}

// VerifPullFactoryPaths (C17 / C20): the pull factory publishes every pulled stream under the
// path it was asked for - also when the same camera URL is already being pulled for another
// path (an exact route and a directory route resolving to one URL), or for the same path.
func VerifPullFactoryPaths() {
	f := &pullStreamFactory{}
	remote := "rtsp://cam/live/cam1"
	verifConnectFails = false
	verifCamConn = &verifCam{sdp: verifSdp}
	s1, err1 := f.Create("/cam1", remote)
	symapi.Quiesce()
	symapi.Assert(err1 == nil && s1 != nil && s1.Path() == "/cam1", "first-pull-published-under-its-path")
	second := []string{"/all/cam1", "/cam1", "/all/cam1/x"}[symapi.Choose("secondPath", 3)]
	verifCamConn = &verifCam{sdp: verifSdp}
	s2, err2 := f.Create(second, remote)
	symapi.Quiesce()
	symapi.Assert(err2 == nil && s2 != nil, "second-pull-of-the-same-source-succeeds")
	symapi.Assert(s2.Path() == second, "pulled-stream-published-under-the-requested-path-although-the-source-is-already-pulled")
	symapi.Reach("end")
}
