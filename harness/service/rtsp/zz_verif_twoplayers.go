package rtsp

import (
	"bufio"
	"bytes"

	"github.com/cnotch/ipchub/zzverif/symapi"
)

// VerifTwoPlayersChannels (C01 / C13): one packet, received from the publisher's connection
// as the server receives it, is delivered at the same time to two interleaved TCP players that
// negotiated different channel numbers for the track. Each player's wire carries the frame on
// its OWN channel with the publisher's payload, for every interleaving of the two deliveries.
func VerifTwoPlayersChannels() {
	// two playing TCP sessions of one stream (state built directly: no delivery goroutines of
	// their own, the two deliveries below are the only concurrent activities)
	mk := func(video int) (*tcpConsumer, *verifConn) {
		fc := &verifConn{}
		s := verifSession(fc)
		s.status = statusPlaying
		s.transport.Type = RTPTCPUnicast
		s.transport.Channels[ChannelVideo], s.transport.Channels[ChannelVideoControl] = video, video+1
		return &tcpConsumer{Session: s}, fc
	}
	a, fa := mk(0)
	b, fb := mk(4)
	ma, mb := len(fa.out), len(fb.out)
	// the publisher's frame as read from its connection (channel 0 there)
	payload := []byte{0x80, 96, 0, 7, 0, 0, 0, 2, 0, 0, 0, 3, 0x41, 0xAA, 0xBB}
	wire := append([]byte{'$', 0, 0, byte(len(payload))}, payload...)
	pkt, err := ReadPacket(bufio.NewReader(bytes.NewReader(wire)), []int{0, 1, 2, 3})
	symapi.Assert(err == nil && pkt != nil, "publisher-frame-read")
	verifLimitVerdict = false
	symapi.Go(func() { a.Consume(pkt) })
	b.Consume(pkt)
	symapi.Quiesce()
	a.lockW.Lock()
	a.conn.Flush()
	a.lockW.Unlock()
	b.lockW.Lock()
	b.conn.Flush()
	b.lockW.Unlock()
	check := func(out []byte, ch byte, who string) {
		symapi.Assert(len(out) == 4+len(payload), "one-whole-frame-per-player")
		symapi.Assert(out[0] == '$' && out[1] == ch && int(out[2])<<8|int(out[3]) == len(payload), "frame-on-the-player's-own-channel")
		for i := range payload {
			symapi.Assert(out[4+i] == payload[i], "payload-byte-identical")
		}
	}
	check(fa.out[ma:], 0, "a")
	check(fb.out[mb:], 4, "b")
	symapi.Reach("end")
}
