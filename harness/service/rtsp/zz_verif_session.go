package rtsp

import (
	"bufio"
	"bytes"
	"io"
	"net"
	"net/url"
	"strings"
	"time"

	"github.com/cnotch/ipchub/media"
	"github.com/cnotch/ipchub/network/socket/buffered"
	"github.com/cnotch/ipchub/network/socket/listener"
	"github.com/cnotch/ipchub/provider/auth"
	"github.com/cnotch/ipchub/zzverif/symapi"
)

const verifSdp = "v=0\r\no=- 0 0 IN IP4 127.0.0.1\r\ns=x\r\nc=IN IP4 0.0.0.0\r\nt=0 0\r\n" +
	"m=video 0 RTP/AVP 96\r\na=rtpmap:96 H264/90000\r\na=control:trackID=0\r\n" +
	"m=audio 0 RTP/AVP 97\r\na=rtpmap:97 MPEG4-GENERIC/44100/2\r\na=control:trackID=1\r\n"

type verifConn struct {
	net.Conn
	out    []byte
	msgs   [][]byte
	closed int
}

func (c *verifConn) Write(p []byte) (int, error) {
	symapi.Yield() // a context switch may happen before every write on the shared socket
	c.out = append(c.out, p...)
	c.msgs = append(c.msgs, append([]byte(nil), p...))
	return len(p), nil
}
func (c *verifConn) Close() error                    { c.closed++; return nil }
func (c *verifConn) RemoteAddr() net.Addr            { return &net.TCPAddr{IP: net.IPv4(10, 0, 0, 1), Port: 1234} }
func (c *verifConn) SetReadDeadline(time.Time) error { return nil }
func (c *verifConn) Read(p []byte) (int, error)      { return 0, io.EOF } // the client is gone

func verifSession(fc *verifConn) *Session {
	s := &Session{
		svr:       &Server{},
		lsession:  "SESS1",
		conn:      buffered.NewConn(fc),
		mode:      UnknownSession,
		transport: RTPTransport{Mode: PlaySession, Type: RTPUnknownTrans},
		authMode:  auth.NoneAuth,
		nonce:     "nonce",
		status:    statusInit,
		stream:    defaultStream,
		consumer:  defaultConsumer,
	}
	for i := rtpChannelMin; i < rtpChannelCount; i++ {
		s.transport.Channels[i] = -1
		s.transport.ClientPorts[i] = -1
	}
	return s
}

func verifReq(method, rawurl, cseq, transport, body string) *Request {
	u, _ := url.Parse(rawurl)
	r := &Request{Method: method, URL: u, Proto: "RTSP/1.0", Header: make(Header), Body: body}
	r.Header.Set(FieldCSeq, cseq)
	if transport != "" {
		r.Header.Set(FieldTransport, transport)
	}
	if body != "" {
		r.Header.Set(FieldContentType, "application/sdp")
	}
	return r
}

// verifResponses parses everything written to the connection since offset from.
func verifResponses(out []byte) []*Response {
	var rs []*Response
	r := bufio.NewReader(bytes.NewReader(out))
	for {
		if _, err := r.Peek(1); err != nil {
			break
		}
		resp, err := ReadResponse(r)
		if err != nil {
			rs = append(rs, nil)
			break
		}
		rs = append(rs, resp)
	}
	return rs
}

var verifMethods = []string{MethodOptions, MethodDescribe, MethodAnnounce, MethodSetup, MethodPlay, MethodRecord,
	MethodTeardown, MethodPause, MethodGetParameter, MethodSetParameter, MethodRedirect, "FOO"}

var verifTransports = []string{
	"RTP/AVP/TCP;unicast;interleaved=0-1",
	"RTP/AVP/TCP;unicast;interleaved=0-1;mode=record",
	"RTP/AVP;unicast;client_port=5000-5001",
	"RTP/AVP;multicast",
	"RTP/AVP;unicast;client_port=5000-5001;mode=record",
	"garbage",
}

// reference automaton (DESIGN A.2)
type verifRef struct {
	status    int
	mode      SessionMode
	controls  bool // DESCRIBE or ANNOUNCE succeeded
	ttype     RTPTransportType
	tmode     SessionMode // transport mode of the last accepted SETUP (sticky when a later SETUP omits mode=)
	playing   bool        // consumer attached
	published bool        // stream registered
	closed    bool
}

// VerifSessionSeq: every sequence of K requests from the initial state: exactly one
// response per request with its CSeq and the session id; states follow the automaton.
func VerifSessionSeq() {
	K := symapi.Param("K", 3)
	exists := symapi.Bool("streamExists")
	if exists {
		media.Regist(media.NewStream("/live/a", verifSdp))
	}
	fc := &verifConn{}
	s := verifSession(fc)
	ref := verifRef{status: statusInit, tmode: PlaySession}
	// optional forced prefix (so that deep states are reached with small K)
	type forced struct{ mi, ti int }
	var prefix []forced
	if symapi.Param("PFX", 0) == 1 {
		switch symapi.Choose("prefix", 4) {
		case 0:
			prefix = []forced{{1, 0}, {3, 0}} // DESCRIBE, SETUP tcp
		case 1:
			prefix = []forced{{1, 0}, {3, 2}} // DESCRIBE, SETUP udp
		case 2:
			prefix = []forced{{2, 0}, {3, 1}} // ANNOUNCE, SETUP tcp record
		case 3:
			prefix = []forced{{1, 0}, {3, 0}, {4, 0}} // DESCRIBE, SETUP tcp, PLAY
		}
	}
	K += len(prefix)
	for k := 0; k < K; k++ {
		var mi int
		if k < len(prefix) {
			mi = prefix[k].mi
		} else {
			mi = symapi.Choose("m"+string(rune('0'+k)), len(verifMethods))
		}
		method := verifMethods[mi]
		cseq := string(rune('1' + k))
		rawurl := "rtsp://h/live/a"
		transport, body := "", ""
		var ti int
		switch method {
		case MethodSetup:
			rawurl = "rtsp://h/live/a/trackID=0"
			if k < len(prefix) {
				ti = prefix[k].ti
			} else {
				ti = symapi.Choose("t"+string(rune('0'+k)), len(verifTransports))
			}
			transport = verifTransports[ti]
		case MethodAnnounce:
			body = verifSdp
		}
		before := len(fc.out)
		st0, mode0 := s.status, s.mode
		err := s.onRequest(verifReq(method, rawurl, cseq, transport, body))
		_ = err
		rs := verifResponses(fc.out[before:])
		symapi.Assert(len(rs) == 1 && rs[0] != nil, "exactly-one-response-per-request")
		resp := rs[0]
		symapi.Assert(resp.Header.Get(FieldCSeq) == cseq, "response-echoes-cseq")
		symapi.Assert(resp.Header.Get(FieldSession) == "SESS1", "response-carries-session-id")
		code := resp.StatusCode

		// ---- reference ----
		legal := true
		switch {
		case method == MethodOptions:
			symapi.Assert(code == 200 && resp.Header.Get(FieldPublic) != "", "options-200-public")
			symapi.Assert(s.status == st0 && s.mode == mode0, "options-changes-nothing")
			continue
		case method == MethodTeardown:
			symapi.Assert(code == 200, "teardown-200")
			symapi.Assert(s.closed && fc.closed == 1, "teardown-closes-connection")
			ref.closed = true
			symapi.Reach("teardown")
			return
		}
		switch ref.status {
		case statusInit:
			legal = method != MethodPlay && method != MethodRecord
		case statusReady:
			legal = method == MethodSetup || method == MethodPlay || method == MethodRecord
		case statusPlaying:
			legal = method == MethodPlay
		case statusRecording:
			legal = method == MethodRecord
		}
		if legal {
			switch method {
			case MethodDescribe, MethodAnnounce, MethodSetup, MethodPlay, MethodRecord:
			default:
				legal = false // no handler: 455
			}
		}
		if !legal {
			symapi.Assert(code == 455, "illegal-method-refused-with-455")
			symapi.Assert(s.status == st0 && s.mode == mode0, "refused-request-changes-nothing")
			continue
		}
		switch method {
		case MethodDescribe:
			if exists {
				symapi.Assert(code == 200 && resp.Body != "", "describe-ok")
				ref.mode, ref.controls = PlaySession, true
			} else {
				symapi.Assert(code == 404, "describe-unknown-stream-404")
			}
		case MethodAnnounce:
			symapi.Assert(code == 200, "announce-ok")
			ref.mode, ref.controls = RecordSession, true
		case MethodSetup:
			ok := ref.controls
			tmode, ttype := ref.tmode, RTPUnknownTrans
			switch ti {
			case 0:
				ttype = RTPTCPUnicast
			case 1:
				ttype, tmode = RTPTCPUnicast, RecordSession
			case 2:
				ttype = RTPUDPUnicast
			case 3:
				ttype = RTPMulticast
			case 4:
				ttype, tmode = RTPUDPUnicast, RecordSession
			case 5:
				ok = false
			}
			if ok && ref.mode != tmode {
				ok = false
			}
			if ok && ref.mode == RecordSession && ttype != RTPTCPUnicast {
				ok = false
			}
			if ok && ttype == RTPMulticast {
				ok = false // the stream in this scenario has no multicast source: 404/461
			}
			if ok {
				symapi.Assert(code == 200, "setup-ok")
				ref.ttype = ttype
				ref.tmode = tmode
				if ref.status < statusReady {
					ref.status = statusReady
				}
			} else {
				symapi.Assert(code != 200, "bad-setup-refused")
			}
		case MethodPlay:
			if ref.status == statusPlaying {
				symapi.Assert(code == 200, "repeated-play-200")
			} else if ref.mode == PlaySession && ref.ttype != RTPUnknownTrans && exists {
				symapi.Assert(code == 200, "play-ok")
				ref.status, ref.playing = statusPlaying, true
			} else {
				symapi.Assert(code != 200, "bad-play-refused")
			}
		case MethodRecord:
			if ref.status == statusRecording {
				symapi.Assert(code == 200, "repeated-record-200")
			} else if ref.mode == RecordSession && ref.ttype == RTPTCPUnicast {
				symapi.Assert(code == 200, "record-ok")
				ref.status, ref.published = statusRecording, true
			} else {
				symapi.Assert(code != 200, "bad-record-refused")
			}
		}
		symapi.Assert(s.status == ref.status, "state-follows-reference-automaton")
		symapi.Assert((s.consumer != defaultConsumer) == ref.playing, "media-only-after-successful-play")
		symapi.Assert((s.stream != defaultStream) == ref.published, "published-only-after-successful-record")
		if ref.published {
			symapi.Assert(media.Get("/live/a") != nil, "recorded-stream-registered")
		}
	}
	symapi.Reach("end")
}

// VerifSessionRelease: whatever the session holds (consumer attachment, published stream)
// is released when the connection ends (client disconnect) or TEARDOWN arrives.
func VerifSessionRelease() {
	src := media.NewStream("/live/a", verifSdp)
	media.Regist(src)
	fc := &verifConn{}
	s := verifSession(fc)
	record := symapi.Bool("record")
	path := "/live/a"
	if record {
		path = "/live/b"
		s.onRequest(verifReq(MethodAnnounce, "rtsp://h/live/b", "1", "", verifSdp))
		s.onRequest(verifReq(MethodSetup, "rtsp://h/live/b/trackID=0", "2", verifTransports[1], ""))
		s.onRequest(verifReq(MethodRecord, "rtsp://h/live/b", "3", "", ""))
		symapi.Assert(s.status == statusRecording && media.Get(path) != nil, "recording-reached")
	} else {
		s.onRequest(verifReq(MethodDescribe, "rtsp://h/live/a", "1", "", ""))
		s.onRequest(verifReq(MethodSetup, "rtsp://h/live/a/trackID=0", "2", verifTransports[0], ""))
		s.onRequest(verifReq(MethodPlay, "rtsp://h/live/a", "3", "", ""))
		symapi.Assert(s.status == statusPlaying && src.ConsumerCount() == 1, "playing-reached")
		if symapi.Bool("playRepeated") { // keep-alive PLAY while playing: still one consumer
			s.onRequest(verifReq(MethodPlay, "rtsp://h/live/a", "9", "", ""))
			symapi.Assert(src.ConsumerCount() == 1, "repeated-play-attaches-nothing-more")
		}
		if symapi.Bool("publisherReplaced") { // another publisher takes the path while this player is attached
			media.Regist(media.NewStream("/live/a", verifSdp))
		}
	}
	if symapi.Bool("teardown") {
		s.onRequest(verifReq(MethodTeardown, "rtsp://h"+path, "4", "", ""))
		symapi.Assert(s.closed, "teardown-closes-session")
	}
	s.process() // the read loop ends (EOF / closed) and the deferred release runs
	symapi.Assert(fc.closed >= 1, "connection-closed")
	if record {
		symapi.Assert(media.Get(path) == nil, "published-stream-unregistered")
	} else {
		symapi.Assert(src.ConsumerCount() == 0, "consumer-detached")
		if cur := media.Get("/live/a"); cur != src { // replaced: the successor is not affected by this player leaving
			symapi.Assert(cur != nil && cur.ConsumerCount() == 0, "successor-stream-untouched")
		}
	}
	symapi.Assert(s.status == statusInit && s.consumer == defaultConsumer && s.stream == defaultStream, "session-reset")
	symapi.Reach("end")
}

// twin: claims a PLAY before SETUP is accepted
func VerifSessionTwin() {
	media.Regist(media.NewStream("/live/a", verifSdp))
	fc := &verifConn{}
	s := verifSession(fc)
	s.onRequest(verifReq(MethodDescribe, "rtsp://h/live/a", "1", "", ""))
	s.onRequest(verifReq(MethodPlay, "rtsp://h/live/a", "2", "", ""))
	symapi.Assert(s.status == statusPlaying, "twin-play-without-setup-accepted")
}

// VerifSessionCSeqEcho: the response carries the request's CSeq (symbolic value) whatever
// the outcome of the request.
func VerifSessionCSeqEcho() {
	fc := &verifConn{}
	s := verifSession(fc)
	cseq := symapi.String("cseq", 2)
	symapi.Assume(symapi.OneOf(cseq[0], "123456789") && symapi.OneOf(cseq[1], "0123456789"))
	method := verifMethods[symapi.Choose("m", len(verifMethods))]
	s.onRequest(verifReq(method, "rtsp://h/live/none", cseq, "", ""))
	rs := verifResponses(fc.out)
	symapi.Assert(len(rs) == 1 && rs[0] != nil, "exactly-one-response-per-request")
	symapi.Assert(rs[0].Header.Get(FieldCSeq) == cseq, "response-echoes-cseq")
	symapi.Reach("end")
}

// VerifTransportRanges (C12: "valid and invalid transports"): every spelling of a range
// parameter - "a-b", "a", "a-", "-b", "-", "" with symbolic digits, optional blanks - is
// parsed without a panic; a lower bound is required, a missing upper bound stays unset.
func VerifTransportRanges() {
	key := []string{"interleaved", "client_port", "server_port", "port"}[symapi.Choose("param", 4)]
	a := symapi.Byte("a")
	b := symapi.Byte("b")
	symapi.Assume(a >= '0' && a <= '9' && b >= '0' && b <= '9')
	as, bs := string([]byte{a}), string([]byte{b})
	form := symapi.Choose("form", 7)
	v := []string{as + "-" + bs, as, as + "-", "-" + bs, "-", "", " " + as + " - " + bs + " "}[form]
	proto := []string{"RTP/AVP/TCP;unicast", "RTP/AVP;unicast"}[symapi.Choose("proto", 2)]
	var t RTPTransport
	for i := range t.Channels {
		t.Channels[i], t.ClientPorts[i], t.ServerPorts[i], t.Ports[i] = -1, -1, -1, -1
	}
	err := t.ParseTransport(int(ChannelVideo), proto+";"+key+"="+v)
	hasLow := form == 0 || form == 1 || form == 2 || form == 6
	hasHigh := form == 0 || form == 3 || form == 6
	symapi.Assert((err == nil) == hasLow, "range-needs-its-lower-bound")
	var lo, hi int
	switch key {
	case "interleaved":
		lo, hi = t.Channels[0], t.Channels[1]
	case "client_port":
		lo, hi = t.ClientPorts[0], t.ClientPorts[1]
	case "server_port":
		lo, hi = t.ServerPorts[0], t.ServerPorts[1]
	case "port":
		lo, hi = t.Ports[0], t.Ports[1]
	}
	if hasLow {
		symapi.Assert(lo == int(a-'0'), "lower-bound-as-written")
	} else {
		symapi.Assert(lo == -1, "missing-lower-bound-unset")
	}
	if hasHigh {
		symapi.Assert(hi == int(b-'0'), "upper-bound-as-written")
	} else {
		symapi.Assert(hi == -1, "missing-upper-bound-unset")
	}
	symapi.Reach("end")
}

// VerifPortMuxClassify (C19): the matchers the service registers on the shared port, in its
// registration order (MatchRTSP first, then MatchHTTP), classify a first line over the
// method / target / version grammar as the property says: RTSP methods go to RTSP; OPTIONS
// is RTSP exactly when its target is '*' with an RTSP version or an rtsp:// URL; HTTP
// methods (OPTIONS otherwise included) go to HTTP; anything else to nobody.
func VerifPortMuxClassify() {
	methods := []string{"OPTIONS", "DESCRIBE", "SETUP", "PLAY", "TEARDOWN", "GET_PARAMETER", "GET", "POST", "HEAD", "BREW"}
	targets := []string{"*", "rtsp://h/a", "RTSP://h/a", "/live/a.flv", "http://h/x"}
	versions := []string{"RTSP/1.0", "rtsp/1.0", "HTTP/1.1", "HTTP/1.0"}
	mi := symapi.Choose("method", len(methods))
	ti := symapi.Choose("target", len(targets))
	vi := symapi.Choose("version", len(versions))
	line := methods[mi] + " " + targets[ti] + " " + versions[vi] + "\r\n" + symapi.String("tail", 2)
	rtspM, httpM := MatchRTSP(), listener.MatchHTTP()
	chosen := "none"
	if rtspM(strings.NewReader(line)) {
		chosen = "rtsp"
	} else if httpM(strings.NewReader(line)) {
		chosen = "http"
	}
	want := "none"
	switch {
	case mi == 0: // OPTIONS
		if (ti == 0 && vi <= 1) || ti == 1 || ti == 2 {
			want = "rtsp"
		} else {
			want = "http"
		}
	case mi <= 5:
		want = "rtsp"
	case mi <= 8:
		want = "http"
	}
	symapi.Assert(chosen == want, "first-line-routed-as-the-property-says")
	symapi.Reach("end")
}
