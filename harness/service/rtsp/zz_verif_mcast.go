package rtsp

import (
	"net"

	"github.com/cnotch/ipchub/media"
	"github.com/cnotch/ipchub/zzverif/symapi"
)

type verifMember struct{ closed int }

func (m *verifMember) Close() error { m.closed++; return nil }

// VerifMulticastMembers (C03): the multicast proxy serves the group while any member is left,
// stops consuming when the last one leaves, and closes every member when the stream ends.
func VerifMulticastMembers() {
	src := media.NewStream("/live/a", verifSdp)
	media.Regist(src)
	proxy := &multicastProxy{path: "/live/a", multicastIP: "239.1.1.1", ttl: 1, bufferSize: 1024}
	for i := range proxy.ports {
		proxy.ports[i] = 5000 + i
	}
	n := symapi.IntRange("members", 1, 3)
	var ms []*verifMember
	for i := 0; i < n; i++ {
		m := &verifMember{}
		ms = append(ms, m)
		proxy.AddMember(m)
	}
	symapi.Assert(src.ConsumerCount() == 1, "proxy-consumes-once-for-the-group")
	if symapi.Bool("streamEnds") {
		proxy.Close() // what the stream does to its consumers when it ends
		for _, m := range ms {
			symapi.Assert(m.closed == 1, "every-member-closed-when-the-stream-ends")
		}
		symapi.Assert(src.ConsumerCount() == 0, "proxy-detached")
		symapi.Reach("ended")
		return
	}
	// members leave one by one in a symbolic order
	left := 0
	gone := make([]bool, n)
	for left < n {
		k := symapi.IntRange("leave", 0, n-1)
		if gone[k] {
			return
		}
		gone[k] = true
		left++
		proxy.ReleaseMember(ms[k])
		if left < n {
			symapi.Assert(src.ConsumerCount() == 1 && !proxy.closed, "group-served-while-a-member-is-left")
		}
	}
	symapi.Assert(src.ConsumerCount() == 0 && proxy.closed, "proxy-stops-when-the-last-member-leaves")
	symapi.Reach("end")
}

// net.ListenUDP is replaced by this in the executor (no sockets): an unconnected UDPConn
// whose operations fail with EINVAL like any closed connection.
func verifListenUDPStub(network string, laddr *net.UDPAddr) (*net.UDPConn, error) {
	return &net.UDPConn{}, nil
}
