package rtsp

import (
	"net"

	"github.com/cnotch/ipchub/media"
	"github.com/cnotch/ipchub/zzverif/symapi"
)

type verifMember struct{ closed int }

func (m *verifMember) Close() error { m.closed++; return nil }

// VerifMulticastMembers (C03): the multicast proxy serves the group while any member is left,
// stops consuming when the last one leaves, and closes every member when the stream ends.
func VerifMulticastMembers() {
	src := media.NewStream("/live/a", verifSdp)
	media.Regist(src)
	proxy := &multicastProxy{path: "/live/a", multicastIP: "239.1.1.1", ttl: 1, bufferSize: 1024}
	for i := range proxy.ports {
		proxy.ports[i] = 5000 + i
	}
	n := symapi.IntRange("members", 1, 3)
	var ms []*verifMember
	for i := 0; i < n; i++ {
		m := &verifMember{}
		ms = append(ms, m)
		proxy.AddMember(m)
	}
	symapi.Assert(src.ConsumerCount() == 1, "proxy-consumes-once-for-the-group")
	if symapi.Bool("streamEnds") {
		proxy.Close() // what the stream does to its consumers when it ends
		for _, m := range ms {
			symapi.Assert(m.closed == 1, "every-member-closed-when-the-stream-ends")
		}
		symapi.Assert(src.ConsumerCount() == 0, "proxy-detached")
		symapi.Reach("ended")
		return
	}
	// members leave one by one in a symbolic order
	left := 0
	gone := make([]bool, n)
	for left < n {
		k := symapi.IntRange("leave", 0, n-1)
		if gone[k] {
			return
		}
		gone[k] = true
		left++
		proxy.ReleaseMember(ms[k])
		if left < n {
			symapi.Assert(src.ConsumerCount() == 1 && !proxy.closed, "group-served-while-a-member-is-left")
		}
	}
	symapi.Assert(src.ConsumerCount() == 0 && proxy.closed, "proxy-stops-when-the-last-member-leaves")
	symapi.Reach("end")
}

// VerifMulticastSessions (C12 / C03): RTSP sessions that PLAY over multicast join the stream's
// group; TEARDOWN or disconnect of a session takes exactly that session out of the group,
// the group is served while a member is left and the proxy stops with the last one.
func VerifMulticastSessions() {
	proxy := &multicastProxy{path: "/live/a", multicastIP: "239.1.1.1", ttl: 1, bufferSize: 1024, sourceIP: "10.0.0.9"}
	for i := range proxy.ports {
		proxy.ports[i] = 5000 + i
	}
	src := media.NewStream("/live/a", verifSdp, media.Multicast(proxy))
	media.Regist(src)
	n := symapi.IntRange("sessions", 1, 2)
	var ss []*Session
	var fcs []*verifConn
	for i := 0; i < n; i++ {
		fc := &verifConn{}
		s := verifSession(fc)
		s.onRequest(verifReq(MethodDescribe, "rtsp://h/live/a", "1", "", ""))
		s.onRequest(verifReq(MethodSetup, "rtsp://h/live/a/trackID=0", "2", verifTransports[3], ""))
		s.onRequest(verifReq(MethodPlay, "rtsp://h/live/a", "3", "", ""))
		symapi.Assert(s.status == statusPlaying, "multicast-playing-reached")
		ss = append(ss, s)
		fcs = append(fcs, fc)
	}
	symapi.Assert(src.ConsumerCount() == 1 && len(proxy.members) == n, "every-multicast-player-is-a-group-member")
	first := 0
	if n == 2 {
		first = symapi.IntRange("first", 0, 1)
	}
	for k := 0; k < n; k++ {
		i := first
		if k == 1 {
			i = 1 - first
		}
		s := ss[i]
		if symapi.Bool("teardown") {
			s.onRequest(verifReq(MethodTeardown, "rtsp://h/live/a", "4", "", ""))
		}
		s.process() // read loop ends; deferred release runs
		symapi.Assert(fcs[i].closed >= 1, "connection-closed")
		symapi.Assert(len(proxy.members) == n-k-1, "leaving-session-released-from-the-group")
		if k < n-1 {
			symapi.Assert(src.ConsumerCount() == 1 && !proxy.closed, "group-served-while-a-session-is-left")
			symapi.Assert(fcs[1-i].closed == 0, "other-member-untouched")
		}
	}
	symapi.Assert(src.ConsumerCount() == 0, "proxy-stops-with-the-last-session")
	symapi.Reach("end")
}

// net.ListenUDP is replaced by this in the executor (no sockets): an unconnected UDPConn
// whose operations fail with EINVAL like any closed connection.
func verifListenUDPStub(network string, laddr *net.UDPAddr) (*net.UDPConn, error) {
	return &net.UDPConn{}, nil
}

// VerifMulticastRestart (C03 / C01): the last member leaves (the proxy stops consuming; the
// delivery goroutine of that consumption is still on its way out) and a new member joins at
// once, restarting the proxy. The old consumption's exit must not tear the restarted proxy
// down: the new member stays attached and the group is served.
func VerifMulticastRestart() {
	symapi.Deterministic(true)
	src := media.NewStream("/live/a", verifSdp)
	media.Regist(src)
	proxy := &multicastProxy{path: "/live/a", multicastIP: "239.1.1.1", ttl: 1, bufferSize: 1024}
	for i := range proxy.ports {
		proxy.ports[i] = 5000 + i
	}
	m1, m2 := &verifMember{}, &verifMember{}
	proxy.AddMember(m1)
	symapi.Settle()
	symapi.Assert(src.ConsumerCount() == 1, "proxy-consuming")
	symapi.Deterministic(false)
	proxy.ReleaseMember(m1) // last member: the proxy stops; its old delivery goroutine now exits
	proxy.AddMember(m2)     // ... while a new member restarts it
	symapi.Quiesce()
	symapi.Assert(m2.closed == 0, "new-member-not-closed-by-the-old-consumption's-exit")
	symapi.Assert(src.ConsumerCount() == 1 && !proxy.closed, "restarted-proxy-keeps-serving-the-group")
	symapi.Reach("end")
}

// VerifMulticastCycles (C03 / C12): the group is used, emptied and used again (join, leave,
// join, leave), and the stream ends the way it really does - the publisher leaves, the stream
// is unregistered and closes its consumers - while a member is attached: every cycle stops the
// proxy when the last member leaves, and the stream's end closes every member.
func VerifMulticastCycles() {
	symapi.Deterministic(true)
	src := media.NewStream("/live/a", verifSdp)
	media.Regist(src)
	proxy := &multicastProxy{path: "/live/a", multicastIP: "239.1.1.1", ttl: 1, bufferSize: 1024}
	for i := range proxy.ports {
		proxy.ports[i] = 5000 + i
	}
	cycles := symapi.IntRange("cycles", 1, 2)
	for k := 0; k < cycles; k++ {
		m := &verifMember{}
		proxy.AddMember(m)
		symapi.Settle()
		symapi.Assert(src.ConsumerCount() == 1 && !proxy.closed, "group-served-in-every-cycle")
		proxy.ReleaseMember(m)
		symapi.Settle()
		symapi.Assert(src.ConsumerCount() == 0 && proxy.closed, "proxy-stops-when-the-last-member-leaves-in-every-cycle")
		symapi.Assert(m.closed == 0, "a-member-that-left-is-not-closed-by-the-proxy")
	}
	m := &verifMember{}
	proxy.AddMember(m)
	symapi.Settle()
	symapi.Assert(src.ConsumerCount() == 1, "group-served")
	media.Unregist(src) // the publisher leaves
	symapi.Settle()
	symapi.Assert(m.closed == 1, "member-closed-when-the-stream-ends")
	symapi.Assert(proxy.closed && len(proxy.members) == 0, "proxy-stopped-when-the-stream-ends")
	symapi.Reach("end")
}
