package flv

import (
	"errors"
	"io"
	"net"
	"net/http"
	"time"

	"github.com/cnotch/ipchub/av/format/flv"
	"github.com/cnotch/ipchub/media"
	"github.com/cnotch/ipchub/network/websocket"
	"github.com/cnotch/ipchub/stats"
	"github.com/cnotch/ipchub/zzverif/symapi"
	"github.com/cnotch/xlog"
)

const verifSdpH264 = "v=0\r\no=- 0 0 IN IP4 127.0.0.1\r\ns=x\r\nc=IN IP4 0.0.0.0\r\nt=0 0\r\n" +
	"m=video 0 RTP/AVP 96\r\na=rtpmap:96 H264/90000\r\na=control:trackID=0\r\n" +
	"m=audio 0 RTP/AVP 97\r\na=rtpmap:97 MPEG4-GENERIC/44100/2\r\na=fmtp:97 profile-level-id=1;mode=AAC-hbr;sizelength=13;indexlength=3;indexdeltalength=3;config=1210\r\na=control:trackID=1\r\n"

// verifRW is the player's HTTP response: the failAt-th Write fails (0 = never).
type verifRW struct {
	hdr          http.Header
	writes       int
	failAt       int
	code         int
	temporary    bool
	failed       bool
	afterFailure int
}

func (w *verifRW) Header() http.Header { return w.hdr }
func (w *verifRW) WriteHeader(c int)   { w.code = c }
func (w *verifRW) Write(p []byte) (int, error) {
	w.writes++
	if w.failed {
		w.afterFailure++ // bytes after a failed (possibly partial) write can only corrupt the FLV stream
		return len(p), nil
	}
	if w.failAt != 0 && w.writes == w.failAt {
		w.failed = true
		if w.temporary {
			return 0, verifTimeout{}
		}
		return 0, errors.New("broken pipe")
	}
	return len(p), nil
}

// verifTimeout is a write timeout as the net package reports it (a temporary net.Error).
type verifTimeout struct{}

func (verifTimeout) Error() string   { return "i/o timeout" }
func (verifTimeout) Timeout() bool   { return true }
func (verifTimeout) Temporary() bool { return true }
func (w *verifRW) Flush()            {}

// VerifHTTPFlvRelease (C03): an HTTP-FLV player whose connection breaks at any write (the FLV
// header included), or whose stream ends, is detached; the stream's consumer count and the
// FLV connection counter return to their prior values, never below.
func VerifHTTPFlvRelease() {
	symapi.Deterministic(true)
	s := media.NewStream("/live/f", verifSdpH264)
	symapi.Assert(s.FlvTypeFlags() != 0, "stream-supports-flv")
	media.Regist(s)
	symapi.Settle()
	w := &verifRW{hdr: http.Header{}, failAt: symapi.IntRange("writeFailsAt", 0, 5), temporary: symapi.Bool("timeoutNotReset")}
	before := stats.FlvConns.GetSample().Active
	done := false
	symapi.Go(func() {
		ConsumeByHTTP(xlog.L(), "/live/f", "10.0.0.3:999", w)
		done = true
	})
	symapi.Settle()
	if !done {
		symapi.Assert(stats.FlvConns.GetSample().Active == before+1, "attached-player-counted-once")
		symapi.Assert(s.ConsumerCount() == 1, "player-attached")
		// two tags are published; a write of the first or second one may fail
		s.WriteFlvTag(&flv.Tag{TagType: flv.TagTypeVideo, Timestamp: 40, Data: []byte{0x27, 1, 0, 0, 0, 0, 0, 0, 1, 0x41}})
		symapi.Settle()
		s.WriteFlvTag(&flv.Tag{TagType: flv.TagTypeVideo, Timestamp: 80, Data: []byte{0x27, 1, 0, 0, 0, 0, 0, 0, 1, 0x41}})
		symapi.Settle()
		symapi.Assert(w.afterFailure == 0, "nothing-is-written-to-the-player-after-a-failed-write")
		if w.failed {
			symapi.Assert(done, "player-with-a-failed-write-is-detached")
		}
	}
	if !done {
		// the stream ends (publisher disconnects)
		media.Unregist(s)
		symapi.Settle()
	}
	symapi.Assert(done, "handler-returns-when-the-player-or-the-stream-is-gone")
	symapi.Assert(s.ConsumerCount() == 0, "consumer-count-zero")
	symapi.Assert(stats.FlvConns.GetSample().Active == before, "flv-connection-counter-back-to-prior-value")
	symapi.Reach("end")
}

// verifWsFlv is the player's WebSocket: the failAt-th Write fails (0 = never); Read blocks
// until the connection is closed (a player sends nothing).
type verifWsFlv struct {
	net.Conn
	writes, failAt int
	closed         int
}

func (c *verifWsFlv) Write(p []byte) (int, error) {
	c.writes++
	if c.failAt != 0 && c.writes >= c.failAt {
		return 0, errors.New("broken pipe")
	}
	return len(p), nil
}
func (c *verifWsFlv) Read(p []byte) (int, error) {
	for c.closed == 0 {
		symapi.Yield()
		if c.closed == 0 {
			return 0, io.EOF // the player went away
		}
	}
	return 0, errors.New("use of closed connection")
}
func (c *verifWsFlv) Close() error                    { c.closed++; return nil }
func (c *verifWsFlv) SetReadDeadline(time.Time) error { return nil }
func (c *verifWsFlv) RemoteAddr() net.Addr            { return &net.TCPAddr{IP: net.IPv4(10, 0, 0, 3), Port: 999} }
func (c *verifWsFlv) Subprotocol() string             { return "" }
func (c *verifWsFlv) TextTransport() websocket.Conn   { return c }
func (c *verifWsFlv) Path() string                    { return "/live/f" }
func (c *verifWsFlv) Username() string                { return "" }

// VerifWsFlvRelease (C03): the same over WebSocket; the connection is closed exactly once.
func VerifWsFlvRelease() {
	s := media.NewStream("/live/f", verifSdpH264)
	media.Regist(s)
	c := &verifWsFlv{failAt: symapi.IntRange("writeFailsAt", 0, 2)}
	before := stats.FlvConns.GetSample().Active
	ConsumeByWebsocket(xlog.L(), "/live/f", "10.0.0.3:999", c) // header, attach, then the player disconnects
	symapi.Assert(s.ConsumerCount() == 0, "consumer-count-zero")
	symapi.Assert(c.closed >= 1, "connection-closed")
	symapi.Assert(stats.FlvConns.GetSample().Active == before, "flv-connection-counter-back-to-prior-value")
	symapi.Reach("end")
}
