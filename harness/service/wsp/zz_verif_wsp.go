package wsp

import (
	"bufio"
	"bytes"
	"io"
	"net"
	"net/url"
	"time"

	"github.com/cnotch/ipchub/media"
	"github.com/cnotch/ipchub/network/websocket"
	"github.com/cnotch/ipchub/service/rtsp"
	"github.com/cnotch/ipchub/stats"
	"github.com/cnotch/ipchub/zzverif/symapi"
)

const verifSdp = "v=0\r\no=- 0 0 IN IP4 127.0.0.1\r\ns=x\r\nc=IN IP4 0.0.0.0\r\nt=0 0\r\n" +
	"m=video 0 RTP/AVP 96\r\na=rtpmap:96 H264/90000\r\na=control:trackID=0\r\n" +
	"m=audio 0 RTP/AVP 97\r\na=rtpmap:97 MPEG4-GENERIC/44100/2\r\na=control:trackID=1\r\n"

// verifWs is a WebSocket connection as the wsp service sees it: every Write is one message,
// every Read returns one scripted incoming message.
type verifWs struct {
	net.Conn
	path, user, sub string
	in              []string
	msgs            [][]byte
	closed          int
}

func (c *verifWs) Write(p []byte) (int, error) {
	symapi.Yield()
	c.msgs = append(c.msgs, append([]byte(nil), p...))
	return len(p), nil
}
func (c *verifWs) Read(p []byte) (int, error) {
	if c.closed > 0 || len(c.in) == 0 {
		return 0, io.EOF
	}
	n := copy(p, c.in[0])
	c.in = c.in[1:]
	return n, nil
}
func (c *verifWs) Close() error                    { c.closed++; return nil }
func (c *verifWs) RemoteAddr() net.Addr            { return &net.TCPAddr{IP: net.IPv4(10, 0, 0, 2), Port: 4321} }
func (c *verifWs) SetReadDeadline(time.Time) error { return nil }
func (c *verifWs) Subprotocol() string             { return c.sub }
func (c *verifWs) TextTransport() websocket.Conn   { return c }
func (c *verifWs) Path() string                    { return c.path }
func (c *verifWs) Username() string                { return c.user }

func verifReq(method, rawurl, cseq, transport string) *rtsp.Request {
	u, _ := url.Parse(rawurl)
	r := &rtsp.Request{Method: method, URL: u, Proto: "RTSP/1.0", Header: make(rtsp.Header)}
	r.Header.Set(rtsp.FieldCSeq, cseq)
	if transport != "" {
		r.Header.Set(rtsp.FieldTransport, transport)
	}
	return r
}

type verifStep struct{ method, url, transport string }

var verifSteps = []verifStep{
	{rtsp.MethodOptions, "rtsp://h/live/a", ""},
	{rtsp.MethodDescribe, "rtsp://h/live/a", ""},
	{rtsp.MethodSetup, "rtsp://h/live/a/trackID=0", "RTP/AVP/TCP;unicast;interleaved=0-1"},
	{rtsp.MethodSetup, "rtsp://h/live/a/trackID=0", "RTP/AVP;unicast;client_port=5000-5001"},
	{rtsp.MethodSetup, "rtsp://h/live/a/trackID=0", "RTP/AVP/TCP;unicast;interleaved=0-1;mode=record"},
	{rtsp.MethodPlay, "rtsp://h/live/a", ""},
	{rtsp.MethodPause, "rtsp://h/live/a", ""},
	{rtsp.MethodRecord, "rtsp://h/live/a", ""},
	{rtsp.MethodAnnounce, "rtsp://h/live/a", ""},
	{rtsp.MethodGetParameter, "rtsp://h/live/a", ""},
	{rtsp.MethodTeardown, "rtsp://h/live/a", ""},
}

// VerifWspSessionSeq (C12 over WSP): every request is answered once with its CSeq and the
// session id; playing is reached only through DESCRIBE, SETUP(tcp, play), PLAY; a method that
// is not legal in the current state is refused with 455 and changes nothing; no media is
// attached before a successful PLAY; a refused request leaves the session usable.
func VerifWspSessionSeq() {
	K := symapi.Param("K", 4)
	src := media.NewStream("/live/a", verifSdp)
	media.Regist(src)
	ws := &verifWs{path: "/live/a", sub: "control"}
	s := newSession(&Server{}, ws, "77")
	// reference automaton
	described, ready, playing := false, false, false
	for k := 0; k < K; k++ {
		st := verifSteps[symapi.Choose("m"+string(rune('0'+k)), len(verifSteps))]
		cseq := string(rune('1' + k))
		status0, cons0 := s.status, src.ConsumerCount()
		resp := s.onRequest(verifReq(st.method, st.url, cseq, st.transport))
		symapi.Assert(resp != nil && resp.Header.Get(rtsp.FieldCSeq) == cseq, "response-echoes-cseq")
		symapi.Assert(resp.Header.Get(rtsp.FieldSession) == s.lsession && s.lsession != "", "response-carries-session-id")
		code := resp.StatusCode
		legal := true
		switch {
		case st.method == rtsp.MethodOptions || st.method == rtsp.MethodTeardown:
		case playing:
			legal = st.method == rtsp.MethodPlay || st.method == rtsp.MethodPause
		case ready:
			legal = st.method == rtsp.MethodSetup || st.method == rtsp.MethodPlay
		default:
			legal = st.method == rtsp.MethodDescribe || st.method == rtsp.MethodSetup
		}
		if !legal {
			symapi.Assert(code == rtsp.StatusMethodNotValidInThisState, "illegal-method-refused-with-455")
			symapi.Assert(s.status == status0 && src.ConsumerCount() == cons0, "refused-request-changes-nothing")
			continue
		}
		switch st.method {
		case rtsp.MethodOptions, rtsp.MethodTeardown:
			symapi.Assert(code == 200, "options-teardown-ok")
			symapi.Assert(s.status == status0 && src.ConsumerCount() == cons0, "options-teardown-change-no-state")
		case rtsp.MethodDescribe:
			symapi.Assert(code == 200 && resp.Body == verifSdp, "describe-returns-the-sdp")
			described = true
		case rtsp.MethodSetup:
			good := described && st.transport == verifSteps[2].transport
			symapi.Assert((code == 200) == good, "setup-ok-iff-described-and-tcp-play-transport")
			if good {
				ready = true
			} else {
				symapi.Assert(s.status == status0, "refused-setup-changes-nothing")
			}
		case rtsp.MethodPlay:
			symapi.Assert(code == 200, "play-ok-after-setup")
			playing = true
		case rtsp.MethodPause:
			symapi.Assert(code == 200, "pause-ok-while-playing")
		}
		symapi.Assert((s.status == statusPlaying) == playing, "playing-only-through-describe-setup-play")
		symapi.Assert((src.ConsumerCount() == 1) == playing, "media-attached-only-after-a-successful-play")
	}
	symapi.Reach("end")
}

func verifWrap(seq string, r *rtsp.Request) string {
	var b bytes.Buffer
	r.Write(&b)
	return "WSP/1.1 WRAP\r\nseq: " + seq + "\r\n\r\n" + b.String()
}

// verifWspReply splits a control-channel message into its WSP status line and the RTSP
// response it wraps (nil when the payload is not exactly one response).
func verifWspReply(m []byte) (ok bool, resp *rtsp.Response) {
	i := bytes.Index(m, []byte("\r\n\r\n"))
	if i < 0 || !bytes.HasPrefix(m, []byte("WSP/1.1 200 OK\r\n")) {
		return false, nil
	}
	body := m[i+4:]
	if len(body) == 0 {
		return true, nil
	}
	r := bufio.NewReader(bytes.NewReader(body))
	resp, err := rtsp.ReadResponse(r)
	if err != nil {
		return true, nil
	}
	if _, err := r.Peek(1); err == nil {
		return true, nil // trailing bytes after the response
	}
	return true, resp
}

// VerifWspProcess (C12 / C03 / C13 over WSP): the control-channel loop answers every wrapped
// request with exactly one message holding one whole RTSP response, media goes to the data
// channel one whole interleaved frame per message, and TEARDOWN or disconnect releases the
// consumer, the channel registration, both connections and the connection count.
func VerifWspProcess() {
	src := media.NewStream("/live/a", verifSdp)
	media.Regist(src)
	svr := &Server{}
	ctl := &verifWs{path: "/live/a", sub: "control"}
	data := &verifWs{path: "/live/a", sub: "data"}
	s := newSession(svr, ctl, "77")
	svr.sessions.Store("77", s)
	s.setDataChannel(data)
	teardown := symapi.Bool("teardown")
	play := symapi.Bool("play")
	ctl.in = []string{
		verifWrap("1", verifReq(rtsp.MethodOptions, "rtsp://h/live/a", "1", "")),
		verifWrap("2", verifReq(rtsp.MethodDescribe, "rtsp://h/live/a", "2", "")),
		verifWrap("3", verifReq(rtsp.MethodSetup, "rtsp://h/live/a/trackID=0", "3", verifSteps[2].transport)),
	}
	n := 3
	if play {
		ctl.in = append(ctl.in, verifWrap("4", verifReq(rtsp.MethodPlay, "rtsp://h/live/a", "4", "")))
		n++
	}
	// (request numbers are consecutive: 1..n)
	if play && symapi.Bool("pause") {
		n++
		ctl.in = append(ctl.in, verifWrap(string(rune('0'+n)), verifReq(rtsp.MethodPause, "rtsp://h/live/a", string(rune('0'+n)), "")))
	}
	if teardown {
		n++
		ctl.in = append(ctl.in, verifWrap(string(rune('0'+n)), verifReq(rtsp.MethodTeardown, "rtsp://h/live/a", string(rune('0'+n)), "")))
	}
	conns0 := stats.WspConns.GetSample().Active
	s.process()
	symapi.Assert(len(ctl.msgs) == n, "one-message-per-request")
	for i, m := range ctl.msgs {
		ok, resp := verifWspReply(m)
		symapi.Assert(ok && resp != nil, "message-is-one-whole-response")
		want := string(rune('1' + i))
		if i >= 3 && !play {
			want = string(rune('1' + n - 1)) // only the TEARDOWN follows the SETUP
		}
		symapi.Assert(resp.Header.Get(rtsp.FieldCSeq) == want, "responses-in-request-order")
	}
	symapi.Assert(src.ConsumerCount() == 0, "consumer-released")
	_, still := svr.sessions.Load("77")
	symapi.Assert(!still, "channel-unregistered")
	symapi.Assert(ctl.closed >= 1 && data.closed >= 1, "both-connections-closed")
	symapi.Assert(stats.WspConns.GetSample().Active == conns0, "connection-count-released")
	symapi.Reach("end")
}

// VerifWspFrames (C13 over WSP): every message on the data channel is exactly one complete
// interleaved frame, while the control channel answers requests at the same time.
func VerifWspFrames() {
	symapi.Deterministic(true)
	src := media.NewStream("/live/a", verifSdp)
	media.Regist(src)
	svr := &Server{}
	ctl := &verifWs{path: "/live/a", sub: "control"}
	data := &verifWs{path: "/live/a", sub: "data"}
	s := newSession(svr, ctl, "77")
	s.setDataChannel(data)
	s.onRequest(verifReq(rtsp.MethodDescribe, "rtsp://h/live/a", "1", ""))
	s.onRequest(verifReq(rtsp.MethodSetup, "rtsp://h/live/a/trackID=0", "2", verifSteps[2].transport))
	s.onRequest(verifReq(rtsp.MethodPlay, "rtsp://h/live/a", "3", ""))
	symapi.Assert(s.status == statusPlaying, "playing-reached")
	symapi.Settle()
	symapi.Deterministic(false)
	frame := []byte{0x80, 96, 0, 1, 0, 0, 0, 2, 0, 0, 0, 3, 0xAA, 0xBB}[:12+symapi.IntRange("n", 0, 2)]
	pkt := &rtsp.RTPPack{Channel: rtsp.ChannelVideo, Data: frame}
	ctl.in = []string{verifWrap("9", verifReq(rtsp.MethodOptions, "rtsp://h/live/a", "9", ""))}
	symapi.Go(func() {
		s.Consume(pkt)
		s.Consume(pkt)
	})
	s.process() // answers the OPTIONS, then the client disconnects
	symapi.Quiesce()
	symapi.Assert(len(ctl.msgs) == 1, "one-control-message")
	ok, resp := verifWspReply(ctl.msgs[0])
	symapi.Assert(ok && resp != nil && resp.Header.Get(rtsp.FieldCSeq) == "9", "control-message-is-one-whole-response")
	for _, m := range data.msgs {
		symapi.Assert(len(m) == 4+len(frame) && m[0] == '$' && m[1] == 0 && int(m[2])<<8|int(m[3]) == len(frame), "data-message-is-one-whole-frame")
		for i := range frame {
			symapi.Assert(m[4+i] == frame[i], "frame-bytes")
		}
	}
	symapi.Assert(len(data.msgs) <= 2, "no-frame-twice")
	symapi.Reach("end")
}

// VerifWspDataChannelJoin (C11 over WSP): media of a path goes only to a caller whose own
// (HTTP-verified) WebSocket path is that path: a data channel opened on another path cannot
// attach itself to a session by naming its channel id.
func VerifWspDataChannelJoin() {
	svr := &Server{}
	ctl := &verifWs{path: "/live/b", user: "bob", sub: "control"}
	s := newSession(svr, ctl, "77")
	svr.sessions.Store("77", s)
	samePath := symapi.Bool("samePath")
	known := symapi.Bool("knownChannel")
	dc := &verifWs{path: "/live/a", user: "alice", sub: "data"}
	if samePath {
		dc.path, dc.user = "/live/b", "bob"
	}
	ch := "77"
	if !known {
		ch = "78"
	}
	dc.in = []string{"WSP/1.1 JOIN\r\nchannel: " + ch + "\r\nseq: 1\r\n\r\n"}
	svr.handshakeDataChannel(dc)
	symapi.Assert(len(dc.msgs) == 1, "join-answered-once")
	attached := s.dataChannel != nil
	symapi.Assert(attached == (samePath && known), "data-channel-attaches-only-to-a-session-of-its-own-path")
	if !attached {
		symapi.Assert(dc.closed >= 1, "refused-data-channel-closed")
		symapi.Assert(!bytes.HasPrefix(dc.msgs[0], []byte("WSP/1.1 200")), "refused-join-not-answered-200")
	} else {
		symapi.Assert(bytes.HasPrefix(dc.msgs[0], []byte("WSP/1.1 200 OK\r\n")), "join-ok")
	}
	symapi.Reach("end")
}
