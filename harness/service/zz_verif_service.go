package service

import (
	"net/http"
	"net/url"

	"github.com/cnotch/apirouter"
	"github.com/cnotch/ipchub/media"
	"github.com/cnotch/ipchub/provider/auth"
	"github.com/cnotch/ipchub/zzverif/symapi"
)

type verifRW struct {
	h    http.Header
	code int
	body []byte
}

func (w *verifRW) Header() http.Header {
	if w.h == nil {
		w.h = http.Header{}
	}
	return w.h
}
func (w *verifRW) Write(p []byte) (int, error) { w.body = append(w.body, p...); return len(p), nil }
func (w *verifRW) WriteHeader(c int) {
	if w.code == 0 {
		w.code = c
	}
}

// VerifHTTPPermissionPath (C11): the path whose pull right is checked for an HTTP/WS
// stream request is the path of the stream the handler will open.
func VerifHTTPPermissionPath() {
	rights := []string{"/live/a", "/live/*", "/live/a/3", "/live/a/+", "/other", "/cam.1", "/cam", "/site/door.front", "/site/door"}
	right := rights[symapi.Choose("right", len(rights))]
	auth.Save(&auth.User{Name: "alice", Password: "pa", PullAccess: right}, true)
	reqs := []struct{ path, stream string }{
		{"/streams/live/a.flv", "/live/a"},
		{"/streams/live/a.m3u8", "/live/a"},
		{"/streams/live/a/3.ts", "/live/a"},
		{"/streams/live/a/17.ts", "/live/a"},
		{"/ws/live/a", "/live/a"},
		{"/streams/live/b/c.flv", "/live/b/c"},
		// stream names with a dot in their last segment
		{"/streams/cam.1/3.ts", "/cam.1"},
		{"/streams/cam.1.flv", "/cam.1"},
		{"/streams/cam.1.m3u8", "/cam.1"},
		{"/streams/site/door.front/12.ts", "/site/door.front"},
	}
	rq := reqs[symapi.Choose("req", len(reqs))]
	r := &http.Request{Method: "GET", URL: &url.URL{Path: rq.path}, Header: http.Header{}}
	r.Header.Set(usernameHeaderKey, "alice")
	w := &verifRW{}
	ok := permissionInterceptor(w, r)
	want := auth.Get("alice").ValidatePermission(rq.stream, auth.PullRight)
	symapi.Assert(ok == want, "permission-decided-on-the-stream-path")
	if !ok {
		symapi.Assert(w.code == http.StatusForbidden, "refusal-is-403")
	}
	// unknown user
	r2 := &http.Request{Method: "GET", URL: &url.URL{Path: rq.path}, Header: http.Header{}}
	r2.Header.Set(usernameHeaderKey, "ghost")
	symapi.Assert(!permissionInterceptor(&verifRW{}, r2), "unknown-user-refused")
	symapi.Reach("end")
}

// VerifAdminRole (C11): management calls succeed only for administrators (stream listing
// excepted).
func VerifAdminRole() {
	auth.Save(&auth.User{Name: "root", Password: "x", Admin: true}, true)
	auth.Save(&auth.User{Name: "alice", Password: "pa", PullAccess: "*", PushAccess: "*"}, true)
	who := []string{"root", "alice", "ghost", ""}[symapi.Choose("who", 4)]
	paths := []string{"/api/v1/users", "/api/v1/routes", "/api/v1/streams", "/api/v1/streams/live/a", "/api/v1/runtime"}
	p := paths[symapi.Choose("path", len(paths))]
	method := []string{"GET", "POST", "DELETE"}[symapi.Choose("method", 3)]
	r := &http.Request{Method: method, URL: &url.URL{Path: p}, Header: http.Header{}}
	if who != "" {
		r.Header.Set(usernameHeaderKey, who)
	}
	ok := roleInterceptor(&verifRW{}, r)
	listing := method == "GET" && (p == "/api/v1/streams" || p == "/api/v1/streams/live/a")
	symapi.Assert(ok == (who == "root" || listing), "management-api-only-for-administrators")
	symapi.Reach("end")
}

// VerifAdminDelete (C05): stopping a stream through the management API leaves no closed
// stream resolvable.
func VerifAdminDelete() {
	s := media.NewStream("/live/a", "")
	media.Regist(s)
	svc := &Service{}
	w := &verifRW{}
	api := apirouter.NewForGRPC(apirouter.DELETE("/api/v1/streams/{path=**}", svc.onStopStream))
	api.ServeHTTP(w, &http.Request{Method: "DELETE", URL: &url.URL{Path: "/api/v1/streams/live/a"}, Header: http.Header{}})
	symapi.Assert(w.code == http.StatusOK || w.code == 0, "delete-answers-200")
	symapi.Assert(media.Get("/live/a") == nil, "closed-stream-never-returned-by-lookup")
	sc, _ := media.Count()
	symapi.Assert(sc == 0, "counts-match-live-streams")
	symapi.Reach("end")
}
