package auth

import "github.com/cnotch/ipchub/zzverif/symapi"

const verifAlphabet = "abAB+*/; "

func verifLower(c byte) byte {
	if c >= 'A' && c <= 'Z' {
		return c + 32
	}
	return c
}

// verifSegs splits s[lo:hi] (already trimmed of '/') at '/' and returns segment bounds.
func verifSegs(s string, lo, hi int) [][2]int {
	var out [][2]int
	start := lo
	for i := lo; i < hi; i++ {
		if s[i] == '/' {
			out = append(out, [2]int{start, i})
			start = i + 1
		}
	}
	out = append(out, [2]int{start, hi})
	return out
}

func verifTrim(s string, lo, hi int, c byte) (int, int) {
	for lo < hi && s[lo] == c {
		lo++
	}
	for hi > lo && s[hi-1] == c {
		hi--
	}
	return lo, hi
}

func verifSegEq(a string, as [2]int, b string, bs [2]int) bool {
	if as[1]-as[0] != bs[1]-bs[0] {
		return false
	}
	for i := 0; i < as[1]-as[0]; i++ {
		if verifLower(a[as[0]+i]) != verifLower(b[bs[0]+i]) {
			return false
		}
	}
	return true
}

func verifIs(s string, sg [2]int, c byte) bool {
	return sg[1]-sg[0] == 1 && s[sg[0]] == c
}

// verifWellFormed: spellings the property statement defines (Appendix A.3 of DESIGN.md):
// no blank inside an item or path after trimming, no empty segment, '*' only as the
// final segment, '+' and '*' only as whole segments, no item consisting only of '/'.
func verifItemWellFormed(s string, lo, hi int) bool {
	if lo == hi {
		return true // empty item: dropped
	}
	if hi-lo == 1 && s[lo] == '*' {
		return true
	}
	lo, hi = verifTrim(s, lo, hi, '/')
	if lo == hi {
		return false
	}
	segs := verifSegs(s, lo, hi)
	for k, sg := range segs {
		if sg[0] == sg[1] {
			return false
		}
		for i := sg[0]; i < sg[1]; i++ {
			c := s[i]
			if c == ' ' {
				return false
			}
			if (c == '+' || c == '*') && sg[1]-sg[0] != 1 {
				return false
			}
		}
		if verifIs(s, sg, '*') && k != len(segs)-1 {
			return false
		}
	}
	return true
}

func verifPathWellFormed(s string, lo, hi int) bool {
	lo, hi = verifTrim(s, lo, hi, '/')
	if lo == hi {
		return false
	}
	for _, sg := range verifSegs(s, lo, hi) {
		if sg[0] == sg[1] {
			return false
		}
		for i := sg[0]; i < sg[1]; i++ {
			c := s[i]
			if c == ' ' || c == ';' || c == '+' || c == '*' {
				return false
			}
		}
	}
	return true
}

// verifMatch: reference semantics of one pattern item against a path.
func verifMatch(right string, ilo, ihi int, path string, plo, phi int) bool {
	if ihi-ilo == 1 && right[ilo] == '*' {
		return true
	}
	ilo, ihi = verifTrim(right, ilo, ihi, '/')
	isegs := verifSegs(right, ilo, ihi)
	open := false
	if verifIs(right, isegs[len(isegs)-1], '*') {
		open = true
		isegs = isegs[:len(isegs)-1]
	}
	plo, phi = verifTrim(path, plo, phi, '/')
	psegs := verifSegs(path, plo, phi)
	if len(psegs) < len(isegs) {
		return false
	}
	if len(psegs) > len(isegs) && !open {
		return false
	}
	for i, sg := range isegs {
		if verifIs(right, sg, '+') {
			continue
		}
		if !verifSegEq(right, sg, path, psegs[i]) {
			return false
		}
	}
	return true
}

// VerifPermission: ValidatePermission(path) == reference for every right string / path.
func VerifPermission() {
	NP := symapi.Param("NP", 3)
	NQ := symapi.Param("NQ", 3)
	right := symapi.String("P", symapi.IntRange("np", 0, NP))
	path := symapi.String("Q", symapi.IntRange("nq", 1, NQ))
	for i := 0; i < len(right); i++ {
		symapi.Assume(symapi.OneOf(right[i], verifAlphabet))
	}
	for i := 0; i < len(path); i++ {
		symapi.Assume(symapi.OneOf(path[i], verifAlphabet))
	}
	admin := symapi.Bool("admin")
	push := symapi.Bool("push")

	// reference
	eff := right
	if admin && len(eff) == 0 {
		eff = "*"
	}
	plo, phi := verifTrim(path, 0, len(path), ' ')
	symapi.Assume(verifPathWellFormed(path, plo, phi))
	want := false
	start := 0
	for i := 0; i <= len(eff); i++ {
		if i == len(eff) || eff[i] == ';' {
			lo, hi := verifTrim(eff, start, i, ' ')
			symapi.Assume(verifItemWellFormed(eff, lo, hi))
			if lo < hi && verifMatch(eff, lo, hi, path, plo, phi) {
				want = true
			}
			start = i + 1
		}
	}

	u := &User{Name: "U", Admin: admin}
	r := PullRight
	if push {
		u.PushAccess = right
		r = PushRight
	} else {
		u.PullAccess = right
	}
	u.init()
	got := u.ValidatePermission(path, r)
	symapi.Assert(got == want, "permission-equals-reference")
	// the other right is not granted by this string (unless admin default)
	if !admin {
		other := PushRight
		if push {
			other = PullRight
		}
		symapi.Assert(!u.ValidatePermission(path, other), "other-right-not-granted")
	}
	symapi.Reach("end")
}

// twin: claims '+' also matches zero segments - must be violated
func VerifPermissionTwin() {
	u := &User{Name: "u", PullAccess: "/a/+"}
	u.init()
	q := symapi.String("Q", 2)
	symapi.Assume(q[0] == '/' && symapi.OneOf(q[1], "ab"))
	symapi.Assert(u.ValidatePermission(q, PullRight), "twin-plus-matches-zero-segments")
}

// VerifPermissionSegments: the same decision at segment granularity, which reaches the
// longer masks the byte-level harness cannot within its bound: a right of ITEMS items, each
// of 1..NS one-byte segments (symbolic, from {a, b, B, +}) with an optional final '*',
// against a path of 1..NS+1 one-byte segments (symbolic, from {a, b, A}), with optional
// leading / trailing '/'.
func VerifPermissionSegments() {
	NS := symapi.Param("NS", 3)
	ITEMS := symapi.Param("ITEMS", 1)
	type item struct {
		segs []byte
		open bool
	}
	var items []item
	right := ""
	for k := 0; k < ITEMS; k++ {
		var it item
		n := symapi.IntRange("nseg", 1, NS)
		s := ""
		if symapi.Bool("lead") {
			s = "/"
		}
		sg := symapi.String("pseg", n)
		for i := 0; i < n; i++ {
			symapi.Assume(symapi.OneOf(sg[i], "abB+"))
			it.segs = append(it.segs, sg[i])
			if i > 0 {
				s += "/"
			}
			s += sg[i : i+1]
		}
		if symapi.Bool("open") {
			it.open = true
			s += "/*"
		}
		items = append(items, it)
		if k > 0 {
			right += ";"
		}
		right += s
	}
	nq := symapi.IntRange("nq", 1, NS+1)
	q := symapi.String("qseg", nq)
	path := "/"
	// an interior segment of the path may be empty ("/a//b"): it is a segment like any other -
	// '+' matches it, no literal does
	empty := make([]bool, nq)
	for i := 0; i < nq; i++ {
		symapi.Assume(symapi.OneOf(q[i], "abA"))
		if i > 0 {
			path += "/"
		}
		if i > 0 && i < nq-1 && symapi.Bool("emptySegment") {
			empty[i] = true
			continue
		}
		path += q[i : i+1]
	}
	if symapi.Bool("trail") {
		path += "/"
	}
	want := false
	for _, it := range items {
		if nq < len(it.segs) || (nq > len(it.segs) && !it.open) {
			continue
		}
		ok := true
		for i, sg := range it.segs {
			if sg != '+' && (empty[i] || verifLower(sg) != verifLower(q[i])) {
				ok = false
			}
		}
		if ok {
			want = true
		}
	}
	u := &User{Name: "U", PullAccess: right}
	u.init()
	symapi.Assert(u.ValidatePermission(path, PullRight) == want, "permission-equals-segment-reference")
	symapi.Assert(!u.ValidatePermission(path, PushRight), "other-right-not-granted")
	symapi.Reach("end")
}
