package auth

import (
	"github.com/cnotch/ipchub/internal/verifhook"
	"github.com/cnotch/ipchub/zzverif/symapi"
)

type verifProvider struct {
	stored                           []*User
	flushes                          int
	lastFull, lastSaves, lastRemoves []*User
}

func (p *verifProvider) LoadAll() ([]*User, error) {
	var out []*User
	for _, u := range p.stored {
		c := *u
		c.pushMatchers, c.pullMatchers = nil, nil
		out = append(out, &c)
	}
	return out, nil
}

func (p *verifProvider) Flush(full, saves, removes []*User) error {
	p.flushes++
	p.lastFull = append([]*User(nil), full...)
	p.lastSaves = append([]*User(nil), saves...)
	p.lastRemoves = append([]*User(nil), removes...)
	return nil
}

type verifRow struct{ name, password, pull string }

// VerifUserTable: the in-memory table equals the result of applying the operations in
// order; Flush hands the provider exactly the current table; a reload gives the same table.
func VerifUserTable() {
	K := symapi.Param("K", 3)
	prov := &verifProvider{}
	var ref []verifRow
	// the history starts from an empty table or from one that a previous run left on disk
	if symapi.Bool("tableOnDisk") {
		prov.stored = []*User{{Name: "bob", Password: "p1", PullAccess: "/a"}}
		ref = []verifRow{{"bob", "p1", "/a"}}
	}
	m := &manager{m: make(map[string]*User)}
	m.Reset(prov)
	names := []string{"bob", "Bob", "eve"}
	lower := []string{"bob", "bob", "eve"}
	pws := []string{"p1", "p2"}
	pulls := []string{"/a", "/b/*"}
	// what the provider has durably: updated by every Flush the manager performs. A flush may
	// be skipped only while the table equals what was last handed over.
	flushAndReload := func() {
		before := prov.flushes
		symapi.Assert(m.Flush() == nil, "flush-ok")
		if prov.flushes != before {
			symapi.Assert(len(prov.lastFull) == len(ref), "flush-hands-over-the-whole-table")
			for i := range ref {
				symapi.Assert(i < len(prov.lastFull) && prov.lastFull[i].Name == ref[i].name &&
					prov.lastFull[i].Password == ref[i].password && prov.lastFull[i].PullAccess == ref[i].pull, "flushed-table-equals-reference")
			}
			symapi.Assert(len(m.saves) == 0 && len(m.removes) == 0, "pending-sets-cleared")
			prov.stored = nil
			for _, u := range prov.lastFull {
				c := *u
				prov.stored = append(prov.stored, &c)
			}
		}
		// a restarted server loads exactly the current table
		p2 := &verifProvider{stored: prov.stored}
		m2 := &manager{m: make(map[string]*User)}
		m2.Reset(p2)
		all2 := m2.All()
		symapi.Assert(len(all2) == len(ref), "reload-same-size")
		for i := range ref {
			symapi.Assert(i < len(all2) && all2[i].Name == ref[i].name && all2[i].Password == ref[i].password && all2[i].PullAccess == ref[i].pull, "reload-equals-reference")
		}
	}
	for k := 0; k < K; k++ {
		switch symapi.Choose("op"+string(rune('0'+k)), 3) {
		case 0: // save
			ni := symapi.Choose("name"+string(rune('0'+k)), 3)
			pw := pws[symapi.Choose("pw"+string(rune('0'+k)), 2)]
			pull := pulls[symapi.Choose("pull"+string(rune('0'+k)), 2)]
			upd := symapi.Bool("updatePassword" + string(rune('0'+k)))
			symapi.Assert(m.Save(&User{Name: names[ni], Password: pw, PullAccess: pull}, upd) == nil, "save-ok")
			found := false
			for i := range ref {
				if ref[i].name == lower[ni] {
					found = true
					ref[i].pull = pull
					if upd {
						ref[i].password = pw
					}
				}
			}
			if !found {
				ref = append(ref, verifRow{lower[ni], pw, pull})
			}
		case 1: // delete
			ni := symapi.Choose("name"+string(rune('0'+k)), 3)
			m.Del(names[ni])
			var nr []verifRow
			for _, r := range ref {
				if r.name != lower[ni] {
					nr = append(nr, r)
				} else {
				}
			}
			ref = nr
		case 2: // flush
			flushAndReload()
		}
		// table == reference after every operation
		all := m.All()
		symapi.Assert(len(all) == len(ref) && len(m.m) == len(ref), "table-size-equals-reference")
		for i := range ref {
			symapi.Assert(i < len(all) && all[i].Name == ref[i].name, "names-canonical-and-in-order")
			symapi.Assert(i < len(all) && all[i].Password == ref[i].password, "update-keeps-password-unless-asked")
			symapi.Assert(i < len(all) && all[i].PullAccess == ref[i].pull, "rights-as-last-saved")
			symapi.Assert(m.Get(ref[i].name) == all[i], "map-and-list-hold-the-same-user")
			// the compiled rights follow the stored access string (also after delete + re-create)
			if i < len(all) {
				symapi.Assert(all[i].ValidatePermission("/a", PullRight) == (ref[i].pull == "/a"), "effective-rights-follow-the-saved-string")
				symapi.Assert(all[i].ValidatePermission("/b/c", PullRight) == (ref[i].pull == "/b/*"), "effective-rights-follow-the-saved-string")
			}
		}
	}
	// the shutdown flush: whatever is pending reaches the provider, a restart loads it
	flushAndReload()
	symapi.Reach("end")
}

func VerifUserTableTwin() {
	m := &manager{m: make(map[string]*User)}
	m.Reset(&verifProvider{})
	m.Save(&User{Name: "bob", Password: "p1"}, true)
	m.Save(&User{Name: "BOB", Password: "p2"}, false)
	symapi.Assert(m.Get("bob").Password == "p2", "twin-update-always-changes-password")
}

var verifCrashPoints = []string{"", "encodejson.opened", "encodejson.written", "encodejson.synced", "encodejson.closed", "encodejson.renamed"}

func verifBytesEq(a, b []byte) bool {
	if len(a) != len(b) {
		return false
	}
	for i := range a {
		if a[i] != b[i] {
			return false
		}
	}
	return true
}

// VerifJSONProviderCrash (C18): the users file as the JSON provider flushes it: if the
// process dies at any point of the provider's Flush (before, inside or after the file
// writer), a restart finds the complete previous file or the complete new one - never no
// file (which LoadAll answers with the default administrator account).
func VerifJSONProviderCrash() {
	full := []*User{{Name: "admin", Password: "x", Admin: true}, {Name: "bob", Password: "p"}}
	ref := &jsonProvider{filePath: symapi.TempPath("ref-users.json")}
	symapi.Assert(ref.Flush(full, nil, nil) == nil, "reference-flush-ok")
	newc, ok := symapi.DurableFile(ref.filePath)
	symapi.Assert(ok && len(newc) > 0, "complete-flush-is-durable")

	p := &jsonProvider{filePath: symapi.TempPath("users.json")}
	old := []byte("[{\"name\":\"previous-table\"}]")
	symapi.SetFile(p.filePath, old)
	verifhook.CrashAt = verifCrashPoints[symapi.Choose("crashAt", len(verifCrashPoints))]
	crashed := false
	func() {
		defer func() {
			if r := recover(); r != nil {
				if _, isCrash := r.(verifhook.CrashSignal); isCrash {
					crashed = true
					return
				}
				panic(r)
			}
		}()
		p.Flush(full, nil, nil)
	}()
	verifhook.CrashAt = ""
	img, exists := symapi.DurableFile(p.filePath)
	symapi.Assert(exists, "users-file-still-exists-after-a-crash-in-flush")
	symapi.Assert(verifBytesEq(img, old) || verifBytesEq(img, newc), "users-file-is-complete-old-or-complete-new")
	if !crashed {
		symapi.Assert(verifBytesEq(img, newc), "uninterrupted-flush-writes-the-new-table")
	}
	symapi.Reach("end")
}
