package auth

import (
	"time"

	"github.com/cnotch/ipchub/zzverif/symapi"
)

var verifRights = []string{"", "/a", "/a/*", "/b/+", "*", "/a;/b"}

func verifRefPermit(right, path string) bool {
	plo, phi := verifTrim(path, 0, len(path), ' ')
	want := false
	start := 0
	for i := 0; i <= len(right); i++ {
		if i == len(right) || right[i] == ';' {
			lo, hi := verifTrim(right, start, i, ' ')
			if lo < hi && verifMatch(right, lo, hi, path, plo, phi) {
				want = true
			}
			start = i + 1
		}
	}
	return want
}

// VerifRightsUpdate: decisions follow the rights as last saved; a deleted user has none.
func VerifRightsUpdate() {
	m := &manager{m: make(map[string]*User)}
	r1 := verifRights[symapi.Choose("r1", len(verifRights))]
	r2 := verifRights[symapi.Choose("r2", len(verifRights))]
	p1 := verifRights[symapi.Choose("p1", 3)]
	symapi.Assert(m.Save(&User{Name: "Bob", Password: "pw", PullAccess: r1, PushAccess: p1}, true) == nil, "save-ok")
	symapi.Assert(m.Save(&User{Name: "bob", PullAccess: r2, PushAccess: ""}, false) == nil, "update-ok")
	u := m.Get("BOB")
	symapi.Assert(u != nil && u.Password == "pw", "user-kept-password")
	path := symapi.String("path", symapi.IntRange("n", 1, symapi.Param("NQ", 3)))
	for i := 0; i < len(path); i++ {
		symapi.Assume(symapi.OneOf(path[i], "ab/"))
	}
	symapi.Assume(verifPathWellFormed(path, 0, len(path)))
	symapi.Assert(u.ValidatePermission(path, PullRight) == verifRefPermit(r2, path), "pull-decision-follows-rights-as-last-saved")
	symapi.Assert(!u.ValidatePermission(path, PushRight), "removed-push-right-grants-nothing")
	m.Del("bob")
	symapi.Assert(m.Get("bob") == nil, "deleted-user-gone")
	symapi.Reach("end")
}

// VerifTokens: histories of token operations against a reference model.
type verifPair struct {
	user       string
	a, r       string
	aexp, rexp int64
	live       bool
}

func VerifTokens() {
	K := symapi.Param("K", 3)
	tm := &TokenManager{}
	var pairs []*verifPair
	issue := func(tok *Token) {
		pairs = append(pairs, &verifPair{user: tok.Username, a: tok.AToken, r: tok.RToken, aexp: tok.AExp, rexp: tok.RExp, live: true})
	}
	first := tm.NewToken("alice")
	issue(first)
	symapi.Assert(first.AToken != first.RToken, "access-and-refresh-tokens-differ")
	pick := func(name string) string {
		// an access token, a refresh token of any issued pair, or a foreign string
		n := len(pairs)
		c := symapi.Choose(name, 2*n+1)
		if c == 2*n {
			return "foreign-token"
		}
		if c%2 == 0 {
			return pairs[c/2].a
		}
		return pairs[c/2].r
	}
	for k := 0; k < K; k++ {
		switch symapi.Choose("op"+string(rune('0'+k)), 3) {
		case 0:
			tok := tm.NewToken("bob")
			issue(tok)
			for _, p := range pairs[:len(pairs)-1] {
				symapi.Assert(p.a != tok.AToken && p.r != tok.RToken && p.a != tok.RToken && p.r != tok.AToken, "tokens-are-fresh")
			}
		case 1:
			t := pick("tok" + string(rune('0'+k)))
			before := time.Now().Unix()
			got := tm.AccessCheck(t)
			after := time.Now().Unix()
			var owner *verifPair
			for _, p := range pairs {
				if p.live && p.a == t {
					owner = p
				}
			}
			if owner == nil {
				symapi.Assert(got == "", "refresh-foreign-or-superseded-token-refused")
			} else if owner.aexp > after {
				symapi.Assert(got == owner.user, "valid-access-token-names-its-user")
			} else if owner.aexp <= before {
				symapi.Assert(got == "", "expired-access-token-refused")
			}
		case 2:
			t := pick("tok" + string(rune('0'+k)))
			before := time.Now().Unix()
			nt := tm.Refresh(t)
			after := time.Now().Unix()
			var owner *verifPair
			for _, p := range pairs {
				if p.live && p.r == t {
					owner = p
				}
			}
			if owner == nil {
				symapi.Assert(nt == nil, "refresh-needs-a-live-refresh-token")
			} else {
				owner.live = false
				if owner.rexp > after {
					symapi.Assert(nt != nil && nt.Username == owner.user, "refresh-issues-new-pair-for-same-user")
				} else if owner.rexp <= before {
					symapi.Assert(nt == nil, "expired-refresh-token-refused")
				}
				if nt != nil {
					issue(nt)
				}
			}
		}
	}
	symapi.Reach("end")
}

func VerifRightsTwin() {
	m := &manager{m: make(map[string]*User)}
	m.Save(&User{Name: "bob", PullAccess: "/a"}, true)
	symapi.Assert(m.Get("bob").ValidatePermission("/b", PullRight), "twin-any-path-permitted")
}

// In VerifTokens security.NewSecret is replaced by this: secrets are pairwise distinct
// concrete strings (what 128 random bits give except with negligible probability), so that
// the token table can be compared with the reference model; that a token is not derivable
// from disclosed identifiers is VerifTokenNotDerivable's subject.
var verifSecretN int

func verifSecretStub() string {
	verifSecretN++
	return "secret-" + string(rune('a'+verifSecretN/26)) + string(rune('a'+verifSecretN%26))
}
