package route

import (
	"encoding/json"
	"errors"
	"os"

	"github.com/cnotch/ipchub/internal/verifhook"
	"github.com/cnotch/ipchub/zzverif/symapi"
)

type verifRProvider struct {
	stored   []*Route
	flushes  int
	lastFull []*Route
}

func (p *verifRProvider) LoadAll() ([]*Route, error) {
	var out []*Route
	for _, r := range p.stored {
		c := *r
		out = append(out, &c)
	}
	return out, nil
}

func (p *verifRProvider) Flush(full, saves, removes []*Route) error {
	p.flushes++
	p.lastFull = append([]*Route(nil), full...)
	return nil
}

type verifRRow struct{ pattern, url string }

// VerifRouteTable (C18): the in-memory route table equals the result of applying the
// operations in order (patterns canonicalised, update replaces the URL, delete then
// re-create leaves one entry); whenever a flush happens the provider is handed exactly the
// current table, and a restarted server loads exactly the table as of the last (shutdown)
// flush - starting from an empty table or from one a previous run left on disk.
func VerifRouteTable() {
	K := symapi.Param("K", 3)
	prov := &verifRProvider{}
	var ref []verifRRow
	if symapi.Bool("tableOnDisk") {
		prov.stored = []*Route{{Pattern: "/a/", URL: "rtsp://h/1"}}
		ref = []verifRRow{{"/a/", "rtsp://h/1"}}
	}
	t := &routetable{m: make(map[string]*Route)}
	t.Reset(prov)
	pats := []string{"/a/", "/A/", "/b"}
	canon := []string{"/a/", "/a/", "/b"}
	urls := []string{"rtsp://h/1", "rtsp://h/2/"}
	flushAndReload := func() {
		before := prov.flushes
		symapi.Assert(t.Flush() == nil, "flush-ok")
		if prov.flushes != before {
			symapi.Assert(len(prov.lastFull) == len(ref), "flush-hands-over-the-whole-table")
			for i := range ref {
				symapi.Assert(i < len(prov.lastFull) && prov.lastFull[i].Pattern == ref[i].pattern && prov.lastFull[i].URL == ref[i].url, "flushed-table-equals-reference")
			}
			prov.stored = nil
			for _, r := range prov.lastFull {
				c := *r
				prov.stored = append(prov.stored, &c)
			}
		}
		t2 := &routetable{m: make(map[string]*Route)}
		t2.Reset(&verifRProvider{stored: prov.stored})
		all2 := t2.All()
		symapi.Assert(len(all2) == len(ref), "reload-same-size")
		for i := range ref {
			symapi.Assert(i < len(all2) && all2[i].Pattern == ref[i].pattern && all2[i].URL == ref[i].url, "reload-equals-reference")
		}
	}
	for k := 0; k < K; k++ {
		switch symapi.Choose("op"+string(rune('0'+k)), 3) {
		case 0: // save
			pi := symapi.Choose("pattern"+string(rune('0'+k)), 3)
			u := urls[symapi.Choose("url"+string(rune('0'+k)), 2)]
			symapi.Assert(t.Save(&Route{Pattern: pats[pi], URL: u}) == nil, "save-ok")
			found := false
			for i := range ref {
				if ref[i].pattern == canon[pi] {
					ref[i].url = u
					found = true
				}
			}
			if !found {
				ref = append(ref, verifRRow{canon[pi], u})
			}
		case 1: // delete
			pi := symapi.Choose("pattern"+string(rune('0'+k)), 3)
			t.Del(pats[pi])
			var nr []verifRRow
			for _, r := range ref {
				if r.pattern != canon[pi] {
					nr = append(nr, r)
				}
			}
			ref = nr
		case 2:
			flushAndReload()
		}
		all := t.All()
		symapi.Assert(len(all) == len(ref) && len(t.m) == len(ref), "table-size-equals-reference")
		for i := range ref {
			symapi.Assert(i < len(all) && all[i].Pattern == ref[i].pattern && all[i].URL == ref[i].url, "table-equals-reference")
			symapi.Assert(t.Get(ref[i].pattern) == all[i], "map-and-list-hold-the-same-route")
		}
	}
	flushAndReload() // the shutdown flush
	symapi.Reach("end")
}

// verifSlowProvider yields while it writes: edits can arrive during a flush's I/O.
type verifSlowProvider struct{ verifRProvider }

func (p *verifSlowProvider) Flush(full, saves, removes []*Route) error {
	snapshot := append([]*Route(nil), full...)
	symapi.Yield() // the file is being written
	p.flushes++
	p.stored = nil
	for _, r := range snapshot {
		c := *r
		p.stored = append(p.stored, &c)
	}
	return nil
}

// VerifRouteFlushRace (C18): a route is saved while a flush is writing the table. Whatever the
// interleaving, after the next (shutdown) flush a restarted server loads both routes: an edit
// that lands during a flush is not forgotten.
func VerifRouteFlushRace() {
	prov := &verifSlowProvider{}
	t := &routetable{m: make(map[string]*Route)}
	t.Reset(prov)
	symapi.Assert(t.Save(&Route{Pattern: "/a", URL: "rtsp://h/1"}) == nil, "save-ok")
	symapi.Go(func() { t.Flush() })
	symapi.Assert(t.Save(&Route{Pattern: "/b", URL: "rtsp://h/2"}) == nil, "save-ok")
	symapi.Quiesce()
	symapi.Assert(t.Flush() == nil, "shutdown-flush-ok")
	t2 := &routetable{m: make(map[string]*Route)}
	t2.Reset(&verifRProvider{stored: prov.stored})
	symapi.Assert(t2.Get("/a") != nil && t2.Get("/b") != nil && len(t2.All()) == 2, "edit-during-a-flush-survives-the-restart")
	symapi.Reach("end")
}

// In VerifRouteJSONLoad encoding/json.Unmarshal is replaced by this (reflection): the file
// "decodes" to the routes the harness wrote.
var verifFileRoutes []*Route

func verifUnmarshalStub(data []byte, v interface{}) error {
	p, ok := v.(*[]*Route)
	if !ok {
		return errors.New("unexpected JSON target")
	}
	*p = nil
	for _, r := range verifFileRoutes {
		c := *r
		*p = append(*p, &c)
	}
	return nil
}

// VerifRouteJSONLoad (C18 / C17): a restarted server loads exactly the routes the file holds -
// an exact pattern and the directory pattern of the same name are two routes - and resolves
// paths against them as against the table that was flushed.
func VerifRouteJSONLoad() {
	all := []*Route{{Pattern: "/live/cam", URL: "rtsp://h/cam"}, {Pattern: "/live/cam/", URL: "rtsp://h/camdir"}, {Pattern: "/live/", URL: "rtsp://h/dir"}, {Pattern: "/a/b", URL: "rtsp://h/ab"}}
	verifFileRoutes = nil
	for i, r := range all {
		if symapi.Bool("inFile" + string(rune('0'+i))) {
			verifFileRoutes = append(verifFileRoutes, r)
		}
	}
	p := &jsonProvider{filePath: symapi.TempPath("routes.json")}
	data, _ := json.Marshal(verifFileRoutes)
	symapi.SetFile(p.filePath, data)
	got, err := p.LoadAll()
	symapi.Assert(err == nil && len(got) == len(verifFileRoutes), "every-route-of-the-file-is-loaded")
	t := &routetable{m: make(map[string]*Route)}
	t.Reset(p)
	for _, r := range verifFileRoutes {
		g := t.Get(r.Pattern)
		symapi.Assert(g != nil && g.URL == r.URL, "loaded-route-equals-the-stored-one")
	}
	symapi.Assert(len(t.All()) == len(verifFileRoutes), "table-size-equals-the-file")
	symapi.Reach("end")
}

var verifCrashPoints = []string{"", "encodejson.opened", "encodejson.written", "encodejson.synced", "encodejson.closed", "encodejson.renamed"}

func verifBytesEq(a, b []byte) bool {
	if len(a) != len(b) {
		return false
	}
	for i := range a {
		if a[i] != b[i] {
			return false
		}
	}
	return true
}

// VerifRouteCrashRestart (C18): the routes file through the JSON provider's Flush and the
// restart's LoadAll: the process dies at any point of the flush, the file system falls back
// to its durable image (a leftover temporary file may be empty or a prefix), the server
// starts and loads: the routes file is the complete old or the complete new table before
// AND after the load, and the load succeeds.
func VerifRouteCrashRestart() {
	full := []*Route{{Pattern: "/live/cam", URL: "rtsp://h/cam"}, {Pattern: "/live/", URL: "rtsp://h/dir"}}
	verifFileRoutes = full
	ref := &jsonProvider{filePath: symapi.TempPath("ref-routes.json")}
	symapi.Assert(ref.Flush(full, nil, nil) == nil, "reference-flush-ok")
	newc, ok := symapi.DurableFile(ref.filePath)
	symapi.Assert(ok && len(newc) > 0, "complete-flush-is-durable")

	p := &jsonProvider{filePath: symapi.TempPath("routes.json")}
	old := []byte("[{\"pattern\":\"/previous\",\"url\":\"rtsp://h/p\"}]")
	symapi.SetFile(p.filePath, old)
	verifhook.CrashAt = verifCrashPoints[symapi.Choose("crashAt", len(verifCrashPoints))]
	func() {
		defer func() {
			if r := recover(); r != nil {
				if _, isCrash := r.(verifhook.CrashSignal); isCrash {
					return
				}
				panic(r)
			}
		}()
		p.Flush(full, nil, nil)
	}()
	verifhook.CrashAt = ""
	// restart: only the durable image survives
	for _, f := range []string{p.filePath, p.filePath + ".tmp"} {
		if img, exists := symapi.DurableFile(f); exists {
			symapi.SetFile(f, img)
		} else {
			os.Remove(f)
		}
	}
	img, exists := symapi.DurableFile(p.filePath)
	symapi.Assert(exists && (verifBytesEq(img, old) || verifBytesEq(img, newc)), "routes-file-complete-old-or-new-after-the-crash")
	_, err := p.LoadAll()
	symapi.Assert(err == nil, "restart-loads-the-routes-file")
	img2, exists2 := symapi.DurableFile(p.filePath)
	symapi.Assert(exists2 && verifBytesEq(img2, img), "loading-does-not-change-the-routes-file")
	symapi.Reach("end")
}
