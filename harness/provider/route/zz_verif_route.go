package route

import (
	"github.com/cnotch/ipchub/utils"
	"github.com/cnotch/ipchub/zzverif/symapi"
)

type verifEntry struct {
	pattern string
	url     string
}

func verifStr(name string, lo, hi int, alphabet string) string {
	s := symapi.String(name, symapi.IntRange(name+".len", lo, hi))
	for i := 0; i < len(s); i++ {
		symapi.Assume(symapi.OneOf(s[i], alphabet))
	}
	return s
}

func verifHasPrefix(s, p string) bool {
	if len(s) < len(p) {
		return false
	}
	for i := 0; i < len(p); i++ {
		if s[i] != p[i] {
			return false
		}
	}
	return true
}

// VerifRouteMatch: Match == reference resolver (DESIGN A.4) for every table of K routes,
// every request path and every map iteration order.
func VerifRouteMatch() {
	K := symapi.Param("K", 2)
	LP := symapi.Param("LP", 3)
	LQ := symapi.Param("LQ", 4)
	t := &routetable{m: make(map[string]*Route)}
	var ref []verifEntry
	urls := []string{"rtsp://h/x", "rtsp://h/x/"}
	// EARLY=1: the request path is also looked up once earlier in the history (after the
	// first save), so that anything a lookup leaves behind must not outlive later edits
	early := symapi.Param("EARLY", 0) == 1
	var q string
	if early {
		q = verifStr("q", 1, LQ, "ab/")
		urls = []string{"rtsp://h/x", "rtsp://h/y/"}
	}
	for i := 0; i < K; i++ {
		if early && i == 1 {
			t.Match(q)
		}
		p := verifStr("p"+string(rune('0'+i)), 1, LP, "ab/")
		u := urls[symapi.Choose("u"+string(rune('0'+i)), 2)]
		symapi.Assert(t.Save(&Route{Pattern: p, URL: u}) == nil, "save-ok")
		cp := utils.CanonicalPath(p)
		found := false
		for j := range ref {
			if ref[j].pattern == cp {
				ref[j].url = u
				found = true
			}
		}
		if !found {
			ref = append(ref, verifEntry{cp, u})
		}
	}
	if symapi.Bool("del") {
		d := verifStr("d", 1, LP, "ab/")
		t.Del(d)
		cd := utils.CanonicalPath(d)
		var nr []verifEntry
		for _, e := range ref {
			if e.pattern != cd {
				nr = append(nr, e)
			}
		}
		ref = nr
	}
	symapi.Assert(len(t.m) == len(ref) && len(t.l) == len(ref), "table-size-equals-reference")

	// snapshot of the stored routes
	type snap struct {
		r       *Route
		pattern string
		url     string
	}
	var before []snap
	for _, r := range t.l {
		before = append(before, snap{r, r.Pattern, r.URL})
	}

	if !early {
		q = verifStr("q", 1, LQ, "ab/")
	}
	got := t.Match(q)
	cq := utils.CanonicalPath(q)

	// reference resolver
	var want *verifEntry
	var wantURL string
	if cq[len(cq)-1] != '/' {
		for i := range ref {
			if ref[i].pattern == cq {
				want = &ref[i]
				wantURL = ref[i].url
			}
		}
		if want == nil {
			best := -1
			for i := range ref {
				p := ref[i].pattern
				if p[len(p)-1] == '/' && verifHasPrefix(cq, p) {
					if best < 0 || len(p) > len(ref[best].pattern) {
						best = i
					}
				}
			}
			if best >= 0 {
				want = &ref[best]
				rest := cq[len(want.pattern):]
				if want.url[len(want.url)-1] == '/' {
					wantURL = want.url + rest
				} else {
					wantURL = want.url + "/" + rest
				}
			}
		}
	}
	if want == nil {
		symapi.Assert(got == nil, "no-route-expected")
	} else {
		symapi.Assert(got != nil, "route-expected")
		symapi.Assert(got.Pattern == cq, "published-under-requested-path")
		symapi.Assert(got.URL == wantURL, "target-url-joined-with-one-slash")
		for _, s := range before {
			symapi.Assert(got != s.r, "result-is-a-copy")
		}
	}
	for _, s := range before {
		symapi.Assert(s.r.Pattern == s.pattern && s.r.URL == s.url, "stored-routes-unmodified")
	}
	symapi.Reach("end")
}

// twin: claims the shortest directory prefix wins
func VerifRouteMatchTwin() {
	t := &routetable{m: make(map[string]*Route)}
	t.Save(&Route{Pattern: "/a/", URL: "rtsp://h/1"})
	t.Save(&Route{Pattern: "/a/b/", URL: "rtsp://h/2"})
	q := verifStr("q", 6, 6, "abc/")
	symapi.Assume(q[0] == '/' && q[1] == 'a' && q[2] == '/' && q[3] == 'b' && q[4] == '/' && q[5] == 'c')
	got := t.Match(q)
	symapi.Assert(got != nil && got.URL == "rtsp://h/1/b/c", "twin-shortest-prefix-wins")
}
