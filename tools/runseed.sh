#!/bin/bash
# usage: runseed.sh <seed dir name under /verif/seeded> <check ids...> : applies the seeded patch to /repo,
# runs the given checks (quick), undoes the patch.
s=/verif/seeded/$1; shift
if [ -n "$(git -C /repo status --porcelain)" ]; then echo "REPO-NOT-CLEAN"; exit 2; fi
git -C /repo apply $s/patch.diff || { echo "APPLY-FAILED"; exit 2; }
for c in "$@"; do
  /verif/check $c quick -no-evidence > $s/check_$c.log 2>&1; e=$?
  echo "$(basename $s): check $c exit=$e $(grep -c '^VIOLATION' $s/check_$c.log) VIOLATION line(s); $(grep '^violation:' $s/check_$c.log | head -2 | cut -c1-200 | tr '\n' '|')"
done
git -C /repo checkout -- .
