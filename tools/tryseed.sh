#!/bin/bash
# usage: tryseed.sh <scratch repo> <patch.diff> <check ids...> : development aid - applies a patch to a scratch
# worktree of /repo, runs the checks (quick) against it with their replays under /tmp, reverses the patch.
r=$1; p=$2; shift 2
git -C $r apply $p || { echo "APPLY-FAILED $p"; exit 2; }
for c in "$@"; do
  VERIF_REPLAY_DIR=${VERIF_REPLAY_DIR:-/tmp/tryreplays} /verif/check $c quick -no-evidence -repo $r > /tmp/try_$(basename $(dirname $(dirname $p)))_$(basename $(dirname $p))_$c.log 2>&1; e=$?
  echo "$p: check $c exit=$e; $(grep '^violation:' /tmp/try_$(basename $(dirname $(dirname $p)))_$(basename $(dirname $p))_$c.log | head -2 | cut -c1-200 | tr '\n' '|') $(grep -c '^INCONCL' /tmp/try_$(basename $(dirname $(dirname $p)))_$(basename $(dirname $p))_$c.log) inconclusive"
done
git -C $r apply -R $p
