#!/bin/bash
# usage: [PHASE=A|B] evalseed.sh <prop id> <variant a|b> <demo package dir> <check ids...>
# (PHASE=A: only the scratch-worktree confirmation; PHASE=B: only the checks against /repo)
# Confirms a seeded change in a scratch worktree (applies, suite at baseline, demo fails with /
# passes without), then applies it to /repo, runs the given checks (quick) and undoes it.
set -u
id=$1; v=$2; pkg=$3; shift 3
src=/tmp/${SEEDPFX:-seed}_${id}_out/$v
out=/verif/seeded/${id}${v}
export GOFLAGS=-mod=mod GOPROXY=off GOSUMDB=off GOTOOLCHAIN=local
wt=/tmp/evalwt_${id}${v}
res() { echo "$1" | tee -a $out/eval.log; }
if [ "${PHASE:-AB}" != "B" ]; then
git -C /repo worktree remove --force $wt 2>/dev/null
git -C /repo worktree add -q --detach $wt HEAD || exit 2
mkdir -p $out
cp $src/patch.diff $out/patch.diff
cp $src/zz_seed_demo_test.go $out/zz_seed_demo_test.go
cp $src/notes.md $out/notes.md 2>/dev/null
: > $out/eval.log
cd $wt
git apply --check $src/patch.diff || { res "PATCH-DOES-NOT-APPLY"; git -C /repo worktree remove --force $wt; exit 2; }
cp $src/zz_seed_demo_test.go $pkg/zz_seed_demo_test.go
go test -vet=off -count=1 -run 'Seed' ./$pkg > $out/demo_unchanged.log 2>&1; d0=$?
git apply $src/patch.diff
go test -vet=off -count=1 -run 'Seed' ./$pkg > $out/demo_patched.log 2>&1; d1=$?
rm -f $pkg/zz_seed_demo_test.go
go build ./... > $out/build.log 2>&1; b=$?
go test -vet=off -count=1 ./... 2>&1 | grep -E "^(FAIL|ok|---)" | grep -E "^FAIL|^--- FAIL" > $out/suite_fail.log
res "demo_unchanged_exit=$d0 demo_patched_exit=$d1 build_exit=$b suite_failures=$(grep -c '^--- FAIL' $out/suite_fail.log)"
grep '^--- FAIL' $out/suite_fail.log | sort -u | tr '\n' ' ' | tee -a $out/eval.log; echo | tee -a $out/eval.log
cd /
git -C /repo worktree remove --force $wt
fi
[ "${PHASE:-AB}" = "A" ] && exit 0
# run checks against /repo with the patch applied
if [ -n "$(git -C /repo status --porcelain)" ]; then res "REPO-NOT-CLEAN"; exit 2; fi
git -C /repo apply $src/patch.diff || { res "APPLY-TO-REPO-FAILED"; exit 2; }
for c in "$@"; do
  ${VERIF_CHECK:-/verif/check} $c quick -no-evidence > $out/check_$c.log 2>&1; e=$?
  res "check $c exit=$e $(grep -c '^VIOLATION' $out/check_$c.log) violation line(s); $(grep '^violation:' $out/check_$c.log | head -2 | cut -c1-220 | tr '\n' '|')"
done
git -C /repo checkout -- . ; git -C /repo status --porcelain | head -3
