#!/usr/bin/env python3
import json,sys
props={json.loads(l)['id']:json.loads(l) for l in open('/verif/properties.jsonl')}
i=sys.argv[1]; p=props[i]
# optional second argument: a round tag; later rounds get their own directories, variant letters and
# a list of what earlier rounds already did for this property (so that they pick something else)
tag=sys.argv[2] if len(sys.argv)>2 else ''
va,vb={'':('a','b'),'r2':('c','d'),'r3':('e','f')}.get(tag,('g','h'))
import glob,os,re
avoid=''
if tag:
    items=[]
    for d in sorted(glob.glob(f'/verif/seeded/{i}?')):
        try:
            m=json.load(open(d+'/meta.json'))
            files=sorted(set(re.findall(r'^diff --git a/(\S+)',open(d+'/patch.diff').read(),re.M)))
            items.append(f"   - in {', '.join(files)}: manifests with: {m['needs_to_manifest']}")
        except Exception: pass
    if items:
        avoid="\nEarlier rounds already produced these changes for this property; yours must differ from them in mechanism AND in the code location (prefer files and clauses of the statement they did not touch):\n"+"\n".join(items)+"\n"
print(f"""You are helping test a verification effort for the Go project cnotch/ipchub (an RTSP/RTP streaming media server with H.264/H.265/AAC parsing and FLV, HLS/MPEG-TS and WebSocket remuxing).

You have your own scratch git worktree of the repository at /tmp/seed{tag}_{i} (detached HEAD). Work ONLY inside /tmp/seed{tag}_{i} and /tmp/seed{tag}_{i}_out. Do not read or write /verif, /repo or any other directory outside those two (reading Go's standard library and the module cache under /root/go/pkg/mod is fine).

Here is a semantic property that the project is supposed to satisfy:

  Title: {p['title']}
  Statement: {p['statement']}
  It must hold: {p['quantifier']['text']}

{avoid}
YOUR TASK: produce TWO different, realistic source changes (call them "{va}" and "{vb}") to the project, each of which BREAKS this property while the project still compiles and its existing test suite still passes. Think of the kind of regression a well-meaning developer could introduce (an optimisation, a refactor, an off-by-one, a dropped lock, a wrong condition, a reordered statement, two sites that each look fine alone).

Requirements for each change:
 1. It must need something SPECIFIC to manifest — a particular interleaving, a crash or fault at a particular point, a multi-step sequence of operations, an unusual input, or two cooperating sites — NOT something ordinary use would expose at once, and not something that makes most inputs fail.
 2. After the change: `cd /tmp/seed{tag}_{i} && export GOFLAGS=-mod=mod GOPROXY=off GOSUMDB=off && go build ./... && go test -vet=off -count=1 ./...` must give the same results as before the change. (Known on the unchanged tree: av/format/flv TestFlvWriter, av/format/mpegts TestMpegtsWriter and av/format/rtp TestDemuxer always fail because test assets are missing, and service/wsp TestRequest_ResponseOK is flaky. Everything else passes.) There is no network.
 3. Provide a DEMONSTRATION: a Go test file (placed in the relevant package directory, named zz_seed_demo_test.go, using only the standard library and the project's own packages) containing a test whose name starts with TestSeedDemo that FAILS with your change applied and PASSES on the unchanged tree. Verify both yourself. IMPORTANT: never use `git stash` (the stash is shared with other worktrees of this repository); to switch between the changed and unchanged tree use `git diff > /tmp/seed{tag}_{i}_out/x.diff; git apply -R /tmp/seed{tag}_{i}_out/x.diff` and `git apply /tmp/seed{tag}_{i}_out/x.diff`. If the change is a concurrency bug, the demo may force the interleaving with small sleeps, channels or loops, but it must fail reliably (say so if it is probabilistic and how often it fails).
 4. Keep each change small (a few lines, at most ~30) and confined to non-test .go files of the project.

DELIVERABLES — write these files (create the directory /tmp/seed{tag}_{i}_out):
  /tmp/seed{tag}_{i}_out/{va}/patch.diff   (output of `git diff` for change {va} only, applicable with `git apply` to the unchanged tree; must NOT contain the demo test)
  /tmp/seed{tag}_{i}_out/{va}/zz_seed_demo_test.go  (the demonstration test) 
  /tmp/seed{tag}_{i}_out/{va}/notes.md     (which package directory the demo test goes in, the exact command to run it, what the change does, what specific condition it needs to manifest, and the observed demo output with and without the change)
  and the same three files under /tmp/seed{tag}_{i}_out/{vb}/ for change {vb}.
Leave the worktree clean (git status empty, no leftover demo files) when you finish. Your final message should be a 5-line summary of both changes.""")
