#!/bin/bash
# For every seed under /verif/seeded: in a scratch worktree of /repo HEAD confirm that the demo passes
# without the patch and fails with it, and that the build still succeeds. Usage: validateseeds.sh [seed...]
export GOFLAGS=-mod=mod GOPROXY=off GOSUMDB=off GOTOOLCHAIN=local
seeds="$@"; [ -z "$seeds" ] && seeds=$(ls /verif/seeded)
for n in $seeds; do
  d=/verif/seeded/$n; pkg=$(jq -r .demo_package_dir $d/meta.json)
  wt=/tmp/valwt_$n; git -C /repo worktree remove --force $wt 2>/dev/null; git -C /repo worktree add -q --detach $wt HEAD || continue
  cp $d/zz_seed_demo_test.go $wt/$pkg/
  (cd $wt && go test -vet=off -count=1 -run Seed ./$pkg > $d/demo_unchanged.log 2>&1); d0=$?
  (cd $wt && git apply $d/patch.diff && go build ./... > /dev/null 2>&1); b=$?
  (cd $wt && go test -vet=off -count=1 -run Seed ./$pkg > $d/demo_patched.log 2>&1); d1=$?
  echo "$n: demo_unchanged_exit=$d0 build_with_patch_exit=$b demo_patched_exit=$d1"
  git -C /repo worktree remove --force $wt
done
