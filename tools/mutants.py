#!/usr/bin/env python3
"""Mutation self-test (development aid, DESIGN Appendix C): applies hand-written breaking edits to /repo
one at a time, runs the named checks (quick) and reports which exit 1. Usage: mutants.py [id-prefix...]"""
import subprocess, sys, json, os, time
R=os.environ.get('MUT_REPO','/repo')
M=[
 # id, file, old, new, checks
 ("C01.sendtoall-stops","media/consumptions.go","\t\tc.send(p, keyframe)\n\t\treturn true","\t\tc.send(p, keyframe)\n\t\treturn false",["C01"]),
 ("C01.wire-channel","av/format/rtp/packet.go","prefix[1] = byte(ch)       // channel","prefix[1] = p.Channel      // channel",["C14","C13"]),
 ("C01.wire-len","av/format/rtp/packet.go","binary.BigEndian.PutUint16(prefix[2:], uint16(len(p.Data)))","binary.BigEndian.PutUint16(prefix[2:], uint16(len(p.Data)+4))",["C14"]),
 ("C01.consume-twice","media/consumption.go","\t\tc.consumer.Consume(pack)\n","\t\tc.consumer.Consume(pack)\n\t\tc.consumer.Consume(pack)\n",["C01"]),
 ("C02.slice-as-key","media/cache/h264cache.go","\tcase h264.NalIdrSlice:\n","\tcase h264.NalIdrSlice, h264.NalSlice:\n",["C02"]),
 ("C02.gop-without-key","media/cache/h264cache.go","} else if cache.gop.Len() > 0 { // 必须关键帧作为cache的第一个包","} else { // 必须关键帧作为cache的第一个包",["C02"]),
 ("C02.no-pps","media/cache/h264cache.go","if cache.pps != nil && cache.pps != cache.sps {","if false && cache.pps != nil {",["C02"]),
 ("C02.flv-no-restamp","media/cache/flvcache.go","\t\tmetaData.Timestamp = initTimestamp\n","",["C02"]),
 ("C03.signal-not-push","media/consumption.go","c.recvQueue.Push(nil)","c.recvQueue.Signal()",["C03"]),
 ("C03.sweep-no-close","media/consumptions.go","\t\t\tci.(*consumption).Close()\n","\t\t\t_ = ci\n",["C03"]),
 ("C03.close-forgets-flv","media/stream.go","\ts.flvConsumptions.RemoveAndCloseAll()\n","",["C03"]),
 ("C03.no-consumer-close","media/consumption.go","\t\tc.consumer.Close()\n","",["C03","C04"]),
 ("C04.toggle-any-packet","media/consumption.go","\tif keyframe { // 是 key frame","\tif true { // 是 key frame",["C04"]),
 ("C04.limit-unreachable","media/consumption.go","} else if !c.discarding && n > c.maxQLen {","} else if !c.discarding && n > c.maxQLen*1000 {",["C04"]),
 ("C04.maxqlen-100","media/stream.go","maxQLen:    1000,","maxQLen:    100,",["C04"]),
 ("C05.unregist-no-identity","media/global.go","\t\tif s2 == s {\n\t\t\tstreams.Delete(s.path)","\t\tif true || s2 == s {\n\t\t\tstreams.Delete(s.path)",["C05"]),
 ("C05.regist-leaves-old","media/global.go","\t\t\toldS.close(StreamReplaced)\n","",["C05"]),
 ("C05.get-no-canon","media/global.go","func Get(path string) *Stream {\n\tpath = utils.CanonicalPath(path)\n","func Get(path string) *Stream {\n",["C05"]),
 ("C05.canon-no-lower","utils/path.go","p = strings.ToLower(strings.TrimSpace(p))","p = strings.TrimSpace(p)",["C05","C17"]),
 ("C05.idle-ignores-consumers","media/global.go","\tif r.s.ConsumerCount() <= 0 {","\tif true {",["C05"]),
 ("C06.fu-copy-from-1","av/format/rtp/h264_depacketizer.go","\t\t\tpayload := fragment.Payload()[2:]\n","\t\t\tpayload := fragment.Payload()[1:]\n",["C06"]),
 ("C06.stap-little-endian","av/format/rtp/h264_depacketizer.go","nalSize := ((uint16(payload[off])) << 8) | uint16(payload[off+1])","nalSize := ((uint16(payload[off+1])) << 8) | uint16(payload[off])",["C06"]),
 ("C06.seq-no-minus1","av/format/rtp/h264_depacketizer.go","SequenceNumber != packet.SequenceNumber-1 {","SequenceNumber != packet.SequenceNumber {",["C06"]),
 ("C06.aac-shift4","av/format/rtp/aac_depacketizer.go","\t\tauHeader := uint16(0) | (uint16(auHeaders[0]) << 8) | uint16(auHeaders[1])\n\t\tframeSize := auHeader >> aacdp.indexLength","\t\tauHeader := uint16(0) | (uint16(auHeaders[0]) << 8) | uint16(auHeaders[1])\n\t\tframeSize := auHeader >> 4",["C06"]),
 ("C06.hevc-fu-mask","av/format/rtp/h265_depacketizer.go","(fuHeader&0x3f)<<1","(fuHeader&0x1f)<<1",["C06"]),
 ("C07.cache-guard","media/cache/h264cache.go","\tif len(payload) < 3 {\n\t\treturn\n\t}\n\n\tnaluTypeInRtp","\tif len(payload) < 1 {\n\t\treturn\n\t}\n\n\tnaluTypeInRtp",["C07"]),
 ("C07.stap-guard","av/format/rtp/h264_depacketizer.go","\t\tif off+int(nalSize) > len(payload) { // 截断的聚合单元，整体丢弃\n\t\t\treturn\n\t\t}\n","",["C07","C06"]),
 ("C08.prevsize-no-header","av/format/flv/flv.go","return w.writeTagSize(uint32(tag.Size()))","return w.writeTagSize(uint32(len(tag.Data)))",["C08"]),
 ("C08.ts-ext-swapped","av/format/flv/tag.go","(timestamp<<8)|(timestamp>>24)","timestamp",["C08"]),
 ("C08.key-for-slice","av/format/flv/h264_packetizer.go","if frame.Payload[0]&0x1F == h264.NalIdrSlice {","if frame.Payload[0]&0x1F == h264.NalSlice {",["C08"]),
 ("C08.cts-reversed","av/format/flv/h264_packetizer.go","CompositionTime: uint32(pts - dts),","CompositionTime: uint32(dts - pts),",["C08"]),
 ("C08.avcc-e0","av/format/flv/videodata.go","\tbuff[offset] = 0xe1\n","\tbuff[offset] = 0xe0\n",["C08"]),
 ("C09.cc-shared","av/format/mpegts/writer.go","\tif frame.Pid == tsAudioPid {\n\t\tcc = &w.audioCC\n\t}","\tif false && frame.Pid == tsAudioPid {\n\t\tcc = &w.audioCC\n\t}",["C09"]),
 ("C09.cc-not-incremented","av/format/mpegts/writer.go","\t\t*cc++\n","",["C09"]),
 ("C09.pts-marker","av/format/mpegts/writer.go","val = int(int(fb)<<4 | int(((pts>>30)&0x07)<<1) | 1)","val = int(int(fb)<<4 | int(((pts>>30)&0x07)<<1))",["C09"]),
 ("C09.pes-len","av/format/mpegts/writer.go","pesSize := (last - pos) + int(headerSize) + 3","pesSize := (last - pos) + int(headerSize) + 2",["C09"]),
 ("C09.adts-len","av/codec/aac/adtsheader.go","frameLen := payloadSize + 7","frameLen := payloadSize",["C09"]),
 ("C09.pmt-byte","av/format/mpegts/writer.go","0x1b, 0xe1, 0x00, 0xf0, 0x00, /* h264, pid=0x100=256 */","0x1c, 0xe1, 0x00, 0xf0, 0x00, /* h264, pid=0x100=256 */",["C09"]),
 ("C10.window-4","av/format/hls/playlist.go","const hlsRemainSegments = 3","const hlsRemainSegments = 4",["C10"]),
 ("C10.no-number-reuse","av/format/hls/segmentgenerator.go","\t\tsg.sequenceNo--\n","",["C10"]),
 ("C10.cut-any-video","av/format/hls/segmentgenerator.go","if frame.IsKeyFrame() && sg.isSegmentOverflow() {","if sg.isSegmentOverflow() {",["C10"]),
 ("C10.mseq-last","av/format/hls/playlist.go","seq := segments[0].sequenceNo","seq := segments[len(segments)-1].sequenceNo",["C10"]),
 ("C10.token-dropped","av/format/hls/playlist.go","\t\tif len(token) > 0 {","\t\tif false && len(token) > 0 {",["C10"]),
 ("C11.nil-user-permitted","service/rtsp/session.go","\tif s.user == nil {\n\t\treturn false\n\t}","\tif s.user == nil {\n\t\treturn true\n\t}",["C11"]),
 ("C11.access-any-token","provider/auth/token.go","if token.AToken == atoken { // 访问token","if true || token.AToken == atoken { // 访问token",["C11"]),
 ("C11.expiry-inverted","provider/auth/token.go","\t\t\tif token.AExp > time.Now().Unix() {","\t\t\tif token.AExp < time.Now().Unix() {",["C11"]),
 ("C11.play-no-permission","service/rtsp/session.go","\tif !s.checkPermission(auth.PullRight) {\n\t\tresp.StatusCode = StatusForbidden\n\t\treturn s.response(resp)\n\t}\n","",["C11"]),
 ("C11.refresh-keeps-old","provider/auth/token.go","\t\t\ttm.tokens.Delete(oldToken.AToken)\n\t\t\ttm.tokens.Delete(oldToken.RToken)\n","",["C11"]),
 # C12.play-in-init is an EQUIVALENT mutant: onPlay itself answers 455 while no transport is set up
 ("C12.play-in-init","service/rtsp/session.go","continueProcess = !(req.Method == MethodPlay || req.Method == MethodRecord)","continueProcess = true",["C12"]),
 ("C12.teardown-no-close","service/rtsp/session.go","\t\terr = s.response(resp)\n\t\ts.Close()\n\t\treturn false, err","\t\terr = s.response(resp)\n\t\treturn false, err",["C12"]),
 ("C12.455-as-200","service/rtsp/session.go","\tif !continueProcess {\n\t\tresp.StatusCode = StatusMethodNotValidInThisState\n","\tif !continueProcess {\n",["C12"]),
 ("C12.play-no-reply","service/rtsp/session.go","\tif s.status == statusPlaying { // 已在播放（如保活用的重复 PLAY）：仍需回复\n\t\treturn s.response(resp)\n\t}","\tif s.status == statusPlaying {\n\t\treturn\n\t}",["C12"]),
 ("C13.response-no-lock","service/rtsp/session.go","func (s *Session) response(resp *Response) error {\n\ts.lockW.Lock()\n","func (s *Session) response(resp *Response) error {\n\ts.lockW.Lock()\n\ts.lockW.Unlock()\n\tdefer s.lockW.Lock()\n",["C13"]),
 ("C14.rtplen-plus1","av/format/rtp/packet.go","rtpBytes := make([]byte, rtpLen)","rtpBytes := make([]byte, rtpLen+1)",["C14"]),
 ("C14.no-final-crlf","av/format/rtsp/header.go","\tws.WriteString(\"\\r\\n\")\n\treturn nil\n}\n\ntype keyValues","\treturn nil\n}\n\ntype keyValues",["C14"]),
 ("C14.content-length-off","av/format/rtsp/request.go","req.Header.SetInt(FieldContentLength, len(req.Body))","req.Header.SetInt(FieldContentLength, len(req.Body)+1)",["C14"]),
 ("C14.line-limit-off","av/format/rtsp/header.go","\t\tif len(line) > maxLineLenght {","\t\tif false && len(line) > maxLineLenght {",["C14"]),
 ("C15.readbits-shift","utils/bits/reader.go","tmp |= uint64(r.buf[idx]&bitsMask[validBits]) << n","tmp |= uint64(r.buf[idx]&bitsMask[validBits]) << (n + 1)",["C15"]),
 ("C15.ue-offset","utils/bits/reader.go","res += (1 << uint(i)) - 1","res += (1 << uint(i))",["C15"]),
 ("C15.crop-420","av/codec/h264/sps.go","\t\treturn 2, 2 * fieldMul","\t\treturn 2, fieldMul",["C15"]),
 ("C15.epb-keep","utils/h264or5.go","\t\t\ti += 3\n","\t\t\ti += 2\n",["C15"]),
 ("C16.count-le","provider/auth/path_matcher.go","\tif count < len(m.parts) {","\tif count <= len(m.parts) {",["C16"]),
 ("C16.no-lower","provider/auth/path_matcher.go","path = strings.ToLower(strings.Trim(path, \"/\"))","path = strings.Trim(path, \"/\")",["C16"]),
 ("C16.wildcard-needs-one","provider/auth/path_matcher.go","if count > len(m.parts) && !m.wildcardEnd {","if count > len(m.parts)+1 && !m.wildcardEnd {",["C16"]),
 ("C17.shortest-prefix","provider/route/routetable.go","if r == nil || len(k) > n {","if r == nil || len(k) < n {",["C17"]),
 ("C17.double-slash","provider/route/routetable.go","r.URL = r.URL + path[len(r.Pattern):]","r.URL = r.URL + path[len(r.Pattern)-1:]",["C17"]),
 ("C17.mutates-stored","provider/route/routetable.go","\t\tret := *r\n\t\tr = &ret\n\t\tif r.URL[len(r.URL)-1] == '/' {","\t\tif r.URL[len(r.URL)-1] == '/' {",["C17"]),
 ("C18.always-update-password","provider/auth/user.go","\tif withPassword {","\tif true || withPassword {",["C18"]),
 ("C18.del-leaves-list","provider/auth/manager.go","\t\t\t\tm.l = append(m.l[:i], m.l[i+1:]...)\n","",["C18"]),
 ("C18.flush-keeps-pending","provider/auth/manager.go","\tm.saves = m.saves[:0]\n\tm.removes = m.removes[:0]\n\treturn nil\n}\n\nfunc (m *manager) All","\treturn nil\n}\n\nfunc (m *manager) All",["C18"]),
 ("C18.rename-before-sync","utils/io.go","\tif err := f.Sync(); err != nil {\n\t\tf.Close()\n\t\treturn err\n\t}\n","",["C18"]),
 ("C19.bufferread-not-reset","network/socket/listener/listener.go","\ts.bufferRead = 0\n","",["C19"]),
 ("C19.replay-skipped","network/socket/listener/listener.go","\ts.bufferSize = s.buffer.Len()\n","\ts.bufferSize = 0\n",["C19"]),
 ("C20.open-no-disconnect","service/rtsp/pull_client.go","\t\tif err != nil { // 出现任何错误执行断链操作","\t\tif false && err != nil { // 出现任何错误执行断链操作",["C20"]),
 ("C20.exit-no-unregist","service/rtsp/pull_client.go","\t\tmedia.Unregist(c.stream)  // 从媒体中心取消注册\n","",["C20"]),
 ("C11.token-md5","provider/auth/token.go","\t\tAToken:   security.NewSecret(),","\t\tAToken:   security.NewID().MD5(),",["C11"]),
 ("C11.wsp-join-any","service/wsp/wsp.go","session.wsPath != wsc.Path() || session.wsUser != wsc.Username()","false",["C11"]),
 ("C11.ws-cached-user","service/rtsp/session.go","\t\ts.user = auth.Get(s.wsconn.Username())\n","",["C11"]),
 ("C12.wsp-pause-init","service/wsp/session.go","\t\t\treq.Method == rtsp.MethodPause ||\n","",["C12"]),
 ("C12.wsp-setup-sticky","service/wsp/session.go","\t\tif resp.StatusCode != rtsp.StatusOK {\n\t\t\ts.transport = oldTransport","\t\tif false {\n\t\t\ts.transport = oldTransport",["C12"]),
 ("C03.mcast-first-only","service/rtsp/multicast_proxy.go","\t}\n\tproxy.members = append(proxy.members, m)\n}","\t\tproxy.members = append(proxy.members, m)\n\t}\n}",["C03","C12"]),
]
sel=sys.argv[1:]
res=[]
for mid,f,old,new,checks in M:
    if sel and not any(mid.startswith(s) for s in sel): continue
    p=os.path.join(R,f); src=open(p).read()
    if src.count(old)<1:
        print(f"{mid}: OLD-STRING-NOT-FOUND"); res.append((mid,'n/a')); continue
    open(p,'w').write(src.replace(old,new,1))
    b=subprocess.run('cd '+R+' && GOFLAGS=-mod=mod GOPROXY=off go build ./... 2>&1 | head -3',shell=True,capture_output=True,text=True).stdout
    if b.strip():
        open(p,'w').write(src); print(f"{mid}: DOES-NOT-COMPILE {b.strip()[:120]}"); res.append((mid,'nocompile')); continue
    outs=[]
    for c in checks:
        t=time.time()
        r=subprocess.run(['/verif/check',c,'quick','-no-evidence','-repo',R],capture_output=True,text=True)
        v=[l for l in r.stdout.splitlines() if l.startswith('VIOLATION')]
        outs.append(f"{c}:exit={r.returncode},{len(v)}viol,{time.time()-t:.0f}s")
    open(p,'w').write(src)
    caught=any('exit=1' in o for o in outs)
    print(f"{mid}: {'CAUGHT' if caught else 'MISSED'}  {' '.join(outs)}",flush=True)
    res.append((mid,'caught' if caught else 'missed'))
st=subprocess.run(['git','-C',R,'status','--porcelain'],capture_output=True,text=True).stdout
print("repo status after run:",repr(st))
print("summary:",{k:sum(1 for _,r in res if r==k) for k in set(r for _,r in res)})
