#!/usr/bin/env python3
"""Regenerates /verif/MANIFEST.json from checks/*.json and checks/_na.json."""
import json, glob, os, subprocess
V = '/verif'
props = [json.loads(l) for l in open(f'{V}/properties.jsonl')]
na = json.load(open(f'{V}/checks/_na.json'))
checks = []
served = []
for p in props:
    f = f"{V}/checks/{p['id']}.json"
    if not os.path.exists(f):
        continue
    c = json.load(open(f))
    if not c.get('registered', False):
        continue
    served.append(p['id'])
    e = {
        "property_id": p['id'],
        "quick_cmd": f"./check {p['id']} quick",
        "thorough_cmd": f"./check {p['id']} thorough",
        "evidence_file": f"/verif/evidence/{p['id']}.json",
        "replay_cmd_template": "engine/bin/gosym -replay {path}",
        "engine": "gosym",
        "level_claimed": {"category": "model_checking", "text": c['level_text'], "design_ref": c.get('design_ref', 'DESIGN.md section 4/' + p['id'])},
        "level_note": c['level_note'],
        "technique": c.get('technique', 'bounded symbolic execution of go/ssa from /repo (gosym) with SMT (z3) deciding every assertion and implicit panic condition per path; counterexamples replayed natively'),
    }
    checks.append(e)
hooks_commits = []
try:
    out = subprocess.run(['git', '-C', '/repo', 'log', '--format=%h %s'], capture_output=True, text=True).stdout
    hooks_commits = [l.split()[0] for l in out.splitlines() if l.split(' ', 1)[1].startswith('verif-hook:')]
except Exception:
    pass
m = {
    "version": 1,
    "setup_cmd": "cd /verif/engine && GOFLAGS=-mod=mod GOPROXY=off GOSUMDB=off GOTOOLCHAIN=local go build -o /verif/engine/bin/gosym ./cmd/gosym",
    "hooks": {"guard": "verif", "enable": "gosym loads /repo with build tag verif; native replays run go test -tags verif -overlay <harness overlay>",
              "baseline_off_cmd": "cd /repo && GOFLAGS=-mod=mod go test -vet=off -count=1 ./...", "source_commits": hooks_commits, "add_only": True},
    "engines": [{"name": "gosym", "path": "/verif/engine", "serves_properties": served,
                 "kind_free_text": "own symbolic executor over go/ssa (x/tools v0.29.0) of /repo's current tree; path-wise SMT-LIB2 queries to z3 4.8.12 (cvc5 / z3 5.1 selectable with -solver); native replay of models via go test -overlay"}],
    "checks": checks,
    "notes": "See DESIGN.md. Exit codes of ./check: 0 held within the stated bound; 1 VIOLATION (replayed natively); 2 inconclusive (solver unknown, unwinding bound, unsupported construct, unconfirmed model) - never reported as success.",
    "not_applicable": [{"property_id": p['id'], "reason": na.get(p['id'], "check not built yet")} for p in props if p['id'] not in served],
}
json.dump(m, open(f'{V}/MANIFEST.json', 'w'), indent=1)
print("checks:", served, "n/a:", [x['property_id'] for x in m['not_applicable']])
